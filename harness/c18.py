"""C18 — reductions are independent of chunking and tree shape.

impl (dask_array.reductions: _normalize_split_every, _build_tree_reduce_expr,
PartialReduce.chunks/_layer, the chunk/combine/aggregate triples run through the public
API, _accept_slice_impl) vs the Gallina model (coq/theories/TreeReduce.v, evaluated in
Coq) vs the property itself (NumPy on the whole array)."""
from __future__ import annotations

import itertools
import json
import math
import warnings

import re

import numpy as np

import dask

from common import Check, cbool, clist, copt, coq_eval_cases, coq_eval_expr, cslice, ctuple, cz

HEADER = "From DA Require Import PyBase TreeReduce.\nOpen Scope Z_scope.\n"

SIG_F10 = {"fn": "arg_reduction", "class": "ravel-tie-break"}
SIG_MOMENT_EMPTY = {"fn": "moment_combine", "class": "empty-chunk-nan"}
SIG_ARG_EMPTY = {"fn": "arg_chunk", "class": "empty-chunk-raises"}
SIG_SE_ONE = {"fn": "_build_tree_reduce_expr", "class": "split-every-one"}
SIG_MINMAX_EMPTY = {"fn": "chunk_min", "class": "empty-chunk-raises"}
SIG_ARGTOPK_EMPTY = {"fn": "argtopk", "class": "empty-chunk-raises"}
SIG_ARGTOPK_K = {"fn": "argtopk", "class": "k-covers-axis-raises"}


# --------------------------------------------------------------------------
# Coq literals
def cpairs(d):
    return clist(list(d), lambda kv: ctuple(cz(kv[0]), cz(kv[1])))


def cse(se):
    if se is None:
        return "SEnone"
    if isinstance(se, dict):
        return f"(SEdict {cpairs(se.items())})"
    return f"(SEint {cz(se)})"


def cchunks(cs):
    return clist(cs, lambda ax: clist(ax))


def clol(g):
    if isinstance(g, list):
        return "(LList " + clist(g, clol) + ")"
    return "(LKey " + clist(g[1:]) + ")"


def cidx(i):
    if i is None:
        return "INone"
    if isinstance(i, slice):
        return f"(ISlice {cslice(i)})"
    return f"(IInt {cz(i)})"


def coz(x):
    """float/int (NaN -> None) as option Z"""
    if x is None or (isinstance(x, float) and math.isnan(x)):
        return "None"
    return f"(Some {cz(int(x))})"


# --------------------------------------------------------------------------
class Recorder:
    """Records the float-derived choices of dask_array.reductions._reduction by shadowing
    `int` and `math` in the module namespace (module globals shadow builtins; nothing in
    /repo is changed): int(<float>) is the k-th root in _normalize_split_every,
    math.ceil(math.log(n, k)) is the per-axis depth."""

    def __init__(self, mod):
        self.mod = mod
        self.roots = []
        self.logs = []
        self.log_args = []

    def __enter__(self):
        rec = self

        def rint(x, *a):
            r = int(x, *a)
            if isinstance(x, float):
                rec.roots.append(r)
            return r

        class MathProxy:
            def __getattr__(self, name):
                return getattr(math, name)

            def log(self, n, k):
                rec.log_args.append((int(n), int(k)))
                return math.log(n, k)

            def ceil(self, x):
                r = math.ceil(x)
                rec.logs.append(int(r))
                return r

        self.mod.int = rint
        self._math = self.mod.math
        self.mod.math = MathProxy()
        return self

    def __exit__(self, *a):
        del self.mod.int
        self.mod.math = self._math


def compositions_upto(n, maxparts):
    def rec(n, parts):
        if n == 0:
            yield ()
            return
        if parts == 0:
            return
        for first in range(1, n + 1):
            for rest in rec(n - first, parts - 1):
                yield (first,) + rest
    return rec(n, maxparts)


def rand_chunks(rng, n, maxblocks=8, zero=False):
    if n == 0:
        return (0,)
    k = min(rng.choice([1, 1, 2, 2, 3, 4, 5, 8]), n, maxblocks)
    cuts = sorted(rng.sample(range(1, n), k - 1)) if k > 1 else []
    cs = [b - a for a, b in zip([0] + cuts, cuts + [n])]
    if zero:
        cs.insert(rng.randrange(len(cs) + 1), 0)
    return tuple(cs)


def rand_split_every(rng, axes, allow_none=True):
    r = rng.random()
    if r < 0.2 and allow_none:
        return None
    if r < 0.65:
        return rng.choice([2, 2, 3, 4, 5, 8, 16, 27, 64])
    d = {ax: rng.choice([2, 2, 3, 4]) for ax in axes if rng.random() < 0.8}
    return d or {axes[0]: 2}


# --------------------------------------------------------------------------
def fam_normalize(chk, R, tier):
    """_normalize_split_every directly, under several config values"""
    rng = chk.rng
    inputs = []
    axes_pool = [(0,), (1,), (0, 1), (1, 0), (0, 1, 2), (0, 2), (2,), (0, 1, 2, 3), ()]
    for cfg in (None, 4, 27, {0: 3}):
        for se in [None, 0, 1, 2, 3, 4, 8, 9, 15, 16, 26, 27, 63, 64, 65, 124, 125, 126, 215, 216, 1000, 4096,
                   {}, {0: 2}, {0: 3, 1: 5}, {1: 4}, {0: 1}, {5: 7}]:
            for axis in axes_pool:
                inputs.append((cfg, se, axis))
    for _ in range(3000 if tier == "thorough" else 400):
        axis = rng.choice(axes_pool)
        se = rng.choice([None, rng.randint(0, 5000), {a: rng.randint(1, 9) for a in range(4) if rng.random() < 0.5}])
        inputs.append((rng.choice([None, 4, 16, {0: 3, 2: 2}]), se, axis))
    cases = []
    for cfg, se, axis in inputs:
        ctx = dask.config.set({"split_every": cfg}) if cfg is not None else dask.config.set({})
        with ctx, Recorder(R) as rec:
            try:
                out = R._normalize_split_every(se, axis)
            except ValueError:
                out = None
        root = rec.roots[0] if rec.roots else 0
        eff = se or (cfg if cfg is not None else 16)
        kind = "dict" if isinstance(eff, dict) else "int"
        chk.count(f"normalize:{kind}:naxes{len(axis)}")
        chk.case(("norm", repr(cfg), repr(se), axis), nontrivial=bool(axis),
                 sample={"fn": "_normalize_split_every", "split_every": se, "axis": axis, "config": cfg, "impl": out})
        # property: canonical {axis: n} form, every fan-in >= 2 for an int argument
        if out is not None:
            if list(out.keys()) != list(axis):
                chk.violation("normalized split_every does not have exactly the reduced axes as keys",
                              {"fn": "_normalize_split_every", "split_every": se, "axis": axis, "impl": out},
                              signature={"fn": "_normalize_split_every", "class": "keys"})
            if kind == "int":
                if any(v < 2 for v in out.values()):
                    chk.violation("fan-in < 2 for an integer split_every",
                                  {"fn": "_normalize_split_every", "split_every": se, "axis": axis, "impl": out},
                                  signature={"fn": "_normalize_split_every", "class": "fan-in<2"})
                if axis:
                    ln = len(axis)
                    exact = root ** ln <= eff < (root + 1) ** ln
                    chk.count("normalize:root-" + ("exact" if exact else "float-deviates"))
        cases.append(ctuple(cse(cfg if cfg is not None else 16), cz(root), cse(se), clist(axis),
                            copt(out, lambda d: cpairs(d.items()))))
    mism, _ = coq_eval_cases(
        HEADER, "se_arg * Z * se_arg * list Z * option (list (Z * Z))",
        "Definition peq (a b : Z * Z) := (fst a =? fst b) && (snd a =? snd b).\n"
        "Definition chk (c : se_arg * Z * se_arg * list Z * option (list (Z * Z))) : bool :=\n"
        "  let '(cfg, root, se, axis, out) := c in\n"
        "  match normalize_split_every cfg root se axis, out with\n"
        "  | Some a, Some b => list_eqb peq a b | None, None => true | _, _ => false end.",
        cases)
    for i in mism[:5]:
        chk.tie_break("correspondence:_normalize_split_every", {"config": inputs[i][0], "split_every": inputs[i][1], "axis": inputs[i][2]})
    chk.traces_validated += len(cases) - len(mism)


# --------------------------------------------------------------------------
def chain_of(expr, PR):
    """PartialReduce chain, innermost first, and the node below it"""
    node = expr
    while not isinstance(node, PR):
        deps = node.dependencies()
        if len(deps) != 1:
            return [], node
        node = deps[0]
    chain = []
    while isinstance(node, PR):
        chain.append(node)
        node = node.array
    return chain[::-1], node


def layer_items(node):
    name = node._name
    items = []
    for key, task in node._layer().items():
        assert key[0] == name
        items.append((tuple(key[1:]), task[1]))
    return items


def build_reduction(da, kind, x, axis, keepdims, se):
    if kind == "sum":
        return da.sum(x, axis=axis, keepdims=keepdims, split_every=se)
    if kind == "mean":
        return da.mean(x, axis=axis, keepdims=keepdims, split_every=se)
    if kind == "min":
        return da.min(x, axis=axis, keepdims=keepdims, split_every=se)
    if kind == "argmax":
        return da.argmax(x, axis=axis, keepdims=keepdims, split_every=se)
    if kind == "topk":
        return da.topk(x, 2, axis=axis, split_every=se)
    raise KeyError(kind)


def gen_structure_case(rng, big=False):
    if big:
        n = rng.choice([37, 64, 100, 129, 200])
        return ("sum" if rng.random() < 0.7 else "argmax", ((1,) * n,), None if rng.random() < 0.5 else 0,
                rng.random() < 0.3, rng.choice([2, 2, 3]))
    ndim = rng.choice([1, 2, 2, 3])
    chunks = tuple(rand_chunks(rng, rng.choice([1, 2, 3, 5, 8, 9, 12]), maxblocks=8 if ndim < 3 else 4) for _ in range(ndim))
    kind = rng.choice(["sum", "sum", "mean", "min", "argmax", "topk"])
    if kind == "argmax":
        axis = rng.choice([None] + list(range(ndim)))
    elif kind == "topk":
        axis = rng.randrange(ndim)
    else:
        r = rng.random()
        if r < 0.3:
            axis = None
        elif r < 0.7:
            axis = rng.randrange(ndim)
        else:
            axis = tuple(sorted(rng.sample(range(ndim), rng.randint(1, ndim))))
    axes = tuple(range(ndim)) if axis is None else ((axis,) if isinstance(axis, int) else axis)
    return kind, chunks, axis, rng.random() < 0.4, rand_split_every(rng, axes)


def fam_structure(chk, R, da, tier):
    """the PartialReduce chain the tree builder emits: depth, chunks per level, and each
    level's task layer (which input blocks feed which output block)"""
    rng = chk.rng
    PR = R.PartialReduce
    inputs = [("argmax", ((2, 2), (1, 1, 1, 1)), None, False, 2),
              ("sum", ((2,) * 10,), None, False, 2),
              ("sum", ((1,) * 125,), 0, False, 5),           # math.log(125, 5) = 3.0000000000000004
              ("sum", ((1,) * 243,), 0, True, 3),
              ("sum", ((1,) * 4, (1,) * 4, (1,) * 4), None, False, 64)]   # 64 ** (1/3) = 3.9999999999999996
    for _ in range(1500 if tier == "thorough" else 260):
        inputs.append(gen_structure_case(rng))
    for _ in range(40 if tier == "thorough" else 4):
        inputs.append(gen_structure_case(rng, big=True))
    cases1, cases2, kept1, kept2 = [], [], [], []
    for kind, chunks, axis, keepdims, se in inputs:
        shape = tuple(sum(c) for c in chunks)
        a = np.arange(int(np.prod(shape)), dtype="i8").reshape(shape)
        x = da.from_array(a, chunks=chunks)
        ndim = len(shape)
        axes = tuple(range(ndim)) if axis is None else ((axis,) if isinstance(axis, int) else tuple(axis))
        with Recorder(R) as rec:
            y = build_reduction(da, kind, x, axis, keepdims, se)
            e = y.expr
            low = e._lower() if isinstance(e, R.Reduction) else e
        chain, base = chain_of(low, PR)
        se_norm = chain[0].split_every
        output_size = 2 if kind == "topk" else 1
        kd = True if kind == "topk" else keepdims
        nb0 = tuple(len(c) for c in base.chunks)
        chk.count(f"structure:{kind}:ndim{ndim}:depth{min(len(chain), 5)}")
        chk.case(("struct", kind, chunks, axis, keepdims, repr(se)), nontrivial=(len(chain) > 1),
                 sample={"fn": "_build_tree_reduce_expr", "reduction": kind, "chunks": chunks, "axis": axis, "keepdims": keepdims,
                         "split_every": se, "impl_depth": len(chain), "impl_chunks_per_level": [n.chunks for n in chain]})
        # property: the aggregate layer has exactly one block along every reduced axis, its keys are distinct
        final = chain[-1]
        for (n, k), c in zip(rec.log_args, rec.logs):
            chk.count("depth:log-" + ("exact" if (k ** c >= n and (c == 0 or k ** (c - 1) < n)) else "float-over" if k ** c >= n else "float-UNDER"))
        nb_final_in = tuple(len(c) for c in final.array.chunks)
        groups = [math.ceil(nb_final_in[i] / se_norm[i]) for i in se_norm]
        if any(g != 1 for g in groups) or len(final._layer()) != math.prod(len(c) for c in final.chunks):
            chk.violation("the aggregate layer has more than one block along a reduced axis (tree too shallow)",
                          {"fn": "_build_tree_reduce_expr", "chunks": chunks, "axis": axis, "split_every": se, "depth": len(chain),
                           "groups_in_aggregate_layer": groups},
                          signature={"fn": "_build_tree_reduce_expr", "class": "depth-underestimate"})
        logical = e.chunks if isinstance(e, R.Reduction) else None
        cases1.append(ctuple(cchunks(x.chunks), clist(axes), cbool(kd), cz(output_size), cpairs(se_norm.items()),
                             clist(rec.logs), cchunks(base.chunks), clist([n.chunks for n in chain], cchunks),
                             copt(logical, cchunks)))
        kept1.append((kind, chunks, axis, keepdims, se))
        total_blocks = math.prod(nb0)
        if total_blocks <= (220 if tier == "thorough" else 130):
            for lvl, node in enumerate(chain):
                nb = tuple(len(c) for c in node.array.chunks)
                items = layer_items(node)
                cases2.append(ctuple(clist(nb), cpairs(node.split_every.items()), cbool(node.keepdims),
                                     clist(items, lambda kv: ctuple(clist(kv[0]), clol(kv[1])))))
                kept2.append((kind, chunks, axis, keepdims, se, lvl))
    mism, _ = coq_eval_cases(
        HEADER,
        "chunksN * list Z * bool * Z * list (Z * Z) * list Z * chunksN * list chunksN * option chunksN",
        "Definition chunksN := list (list Z).\n"
        "Definition chk (c : chunksN * list Z * bool * Z * list (Z * Z) * list Z * chunksN * list chunksN * option chunksN) : bool :=\n"
        "  let '(chunks, axis, kd, osz, se, logs, base, chain, logical) := c in\n"
        "  zlist2_eqb (chunk_step_chunks chunks axis osz) base &&\n"
        "  match tree_depth (map (fun c => Z.of_nat (length c)) base) se logs with\n"
        "  | Some d => (d =? Z.of_nat (length chain)) && list_eqb zlist2_eqb (build_tree_chunks base se kd d) chain\n"
        "              && logs_ok (map (fun c => Z.of_nat (length c)) base) se logs\n"
        "  | None => false end &&\n"
        "  match logical with Some l => zlist2_eqb (reduction_chunks chunks axis kd osz) l | None => true end.",
        cases1, chunk=100)
    # the Definition of chunksN must precede its use in `cases`: coq_eval_cases writes check_def first
    for i in mism[:5]:
        chk.tie_break("correspondence:_build_tree_reduce_expr depth / PartialReduce.chunks", dict(zip(["reduction", "chunks", "axis", "keepdims", "split_every"], kept1[i])))
    chk.traces_validated += len(cases1) - len(mism)
    mism, _ = coq_eval_cases(
        HEADER, "list Z * list (Z * Z) * bool * list (list Z * lol)",
        "Definition chk (c : list Z * list (Z * Z) * bool * list (list Z * lol)) : bool :=\n"
        "  let '(nb, se, kd, items) := c in layer_eqb (pr_layer nb se kd) items &&\n"
        "  (* bridge to the evaluator of the theorems: the flattened task argument of an output key is\n"
        "     the product of the per-axis groups that nd_level folds over *)\n"
        "  (if kd then forallb (fun kv => list_eqb zlist_eqb (lol_flatten (snd kv))\n"
        "       (cprod (nd_group (nd_parts (se_ks se (length nb)) nb) (fst kv)))) items else true).",
        cases2, chunk=60)
    for i in mism[:5]:
        chk.tie_break("correspondence:PartialReduce._layer", dict(zip(["reduction", "chunks", "axis", "keepdims", "split_every", "level"], kept2[i])))
    chk.traces_validated += len(cases2) - len(mism)

    # direct PartialReduce construction: keepdims=False on a grid that still has several groups
    # (keys collide in the dict) and fan-in 1 entries — the layer model must still agree
    cases3, kept3 = [], []
    for _ in range(300 if tier == "thorough" else 60):
        ndim = rng.choice([1, 2, 2, 3])
        chunks = tuple((1,) * rng.randint(1, 6) for _ in range(ndim))
        x = da.from_array(np.zeros(tuple(len(c) for c in chunks)), chunks=chunks)
        se = {ax: rng.choice([1, 2, 2, 3]) for ax in range(ndim) if rng.random() < 0.7}
        kd = rng.random() < 0.5
        node = PR(x.expr, sum, se, kd, dtype="f8", name="probe")
        items = layer_items(node)
        chk.count("layer-direct:" + ("keepdims" if kd else "collapse"))
        chk.case(("layer", chunks, repr(se), kd), nontrivial=bool(se))
        cases3.append(ctuple(clist(len(c) for c in chunks), cpairs(se.items()), cbool(kd),
                             clist(items, lambda kv: ctuple(clist(kv[0]), clol(kv[1]))),
                             cchunks(x.chunks), cchunks(node.chunks)))
        kept3.append((chunks, se, kd))
    mism, _ = coq_eval_cases(
        HEADER, "list Z * list (Z * Z) * bool * list (list Z * lol) * list (list Z) * list (list Z)",
        "Definition chk (c : list Z * list (Z * Z) * bool * list (list Z * lol) * list (list Z) * list (list Z)) : bool :=\n"
        "  let '(nb, se, kd, items, chunks, out) := c in layer_eqb (pr_layer nb se kd) items && zlist2_eqb (pr_chunks chunks se kd) out.",
        cases3, chunk=100)
    for i in mism[:5]:
        chk.tie_break("correspondence:PartialReduce._layer/.chunks (direct)", dict(zip(["chunks", "split_every", "keepdims"], kept3[i])))
    chk.traces_validated += len(cases3) - len(mism)


# --------------------------------------------------------------------------
KIND_CODE = {"sum": 0, "prod": 1, "min": 2, "max": 3, "any": 4, "all": 5, "mean": 6, "count_nonzero": 7,
             "argmax": 8, "argmin": 9, "nansum": 10, "nanmin": 11, "nanmax": 12, "nanmean": 13}

VALUES_CHECK = r"""
Definition oz_eqb := oZ_eqb.
Definition olist_eqb := list_eqb oZ_eqb.
Definition to_z (l : list (option Z)) : list Z := map (fun o => match o with Some x => x | None => 0 end) l.
(* |total/n - p/q| <= 2^-52 |total/n| : the float p/q is the correctly rounded quotient *)
Definition mean_close (total n p q : Z) : bool :=
  (0 <? n) && (0 <? q) && (Z.abs (total * q - p * n) * 2 ^ 52 <=? Z.abs (total * q)).
Definition mean_ok (r : option Z * Z) (exp : list (option Z)) : bool :=
  match r, exp with
  | (Some total, n), [Some p; Some q] => mean_close total n p q
  | (Some _, 0), [None] => true
  | (None, _), [None] => true
  | (Some total, n), [None] => n =? 0
  | _, _ => false end.
Definition chk (c : Z * Z * Z * list Z * list (option Z) * list (option Z)) : bool :=
  let '(kind, k, depth, chunks, data, exp) := c in
  let zb := split_chunks chunks (to_z data) in
  let fb := split_chunks chunks data in
  let one (r : list Z) := olist_eqb (map Some r) exp in
  let oone (r : list (option Z)) := olist_eqb r exp in
  let fone (r : list (option (option Z))) := match r with [Some v] => olist_eqb [v] exp | _ => false end in
  match kind with
  | 0 => one (tree_reduce_1d red_sum k depth zb)
  | 1 => one (tree_reduce_1d red_prod k depth zb)
  | 2 => oone (tree_reduce_1d red_min k depth zb)
  | 3 => oone (tree_reduce_1d red_max k depth zb)
  | 4 => one (map b2z (tree_reduce_1d red_any k depth zb))
  | 5 => one (map b2z (tree_reduce_1d red_all k depth zb))
  | 6 => match tree_reduce_1d red_mean k depth zb with [(t, n)] => mean_ok (Some t, n) exp | _ => false end
  | 7 => one (tree_reduce_1d red_sum k depth (count_nonzero_blocks zb))
  | 8 => oone (tree_reduce_1d (red_arg_axis Z.gtb) k depth (combine (block_offsets chunks) zb))
  | 9 => oone (tree_reduce_1d (red_arg_axis Z.ltb) k depth (combine (block_offsets chunks) zb))
  | 10 => oone (tree_reduce_1d red_nansum k depth fb)
  | 11 => fone (tree_reduce_1d red_nanmin k depth fb)
  | 12 => fone (tree_reduce_1d red_nanmax k depth fb)
  | 13 => match tree_reduce_1d red_nanmean k depth fb with [r] => mean_ok r exp | _ => false end
  | 14 => oone (tree_reduce_1d red_fsum k depth fb)
  | 15 => fone (tree_reduce_1d red_fmin k depth fb)
  | 16 => fone (tree_reduce_1d red_fmax k depth fb)
  | 17 => match tree_reduce_1d red_fmean k depth fb with [r] => mean_ok r exp | _ => false end
  | _ => false end.
"""


def depth_of(n, k):
    return max(1, math.ceil(math.log(n, k)))


def run_1d(da, kind, a, chunks, se):
    x = da.from_array(a, chunks=(chunks,))
    with warnings.catch_warnings():
        warnings.simplefilter("ignore")
        f = getattr(da, kind) if kind != "count_nonzero" else da.count_nonzero
        if kind == "count_nonzero":
            y = da.count_nonzero(x)
        else:
            y = f(x, split_every=se)
        return y.compute(scheduler="sync")


def fam_values_1d(chk, da, tier):
    """model tree evaluator on exact carriers vs the real pipeline (1-D, integer-valued data)"""
    rng = chk.rng
    cases, kept = [], []
    kinds_int = ["sum", "prod", "min", "max", "any", "all", "mean", "count_nonzero", "argmax", "argmin"]
    kinds_nan = ["nansum", "nanmin", "nanmax", "nanmean", "sum", "min", "max", "mean"]
    ntrials = 2500 if tier == "thorough" else 420
    for t in range(ntrials):
        deep = rng.random() < 0.08
        if deep:
            nblocks = rng.randint(20, 200)
            chunks = tuple(rng.choice([1, 1, 2]) for _ in range(nblocks))
            k = 2
        else:
            n = rng.choice([1, 2, 3, 5, 8, 13, 21])
            chunks = rand_chunks(rng, n)
            k = rng.choice([2, 2, 3, 4, 16])
        n = sum(chunks)
        nan_case = rng.random() < 0.35
        if nan_case:
            kind = rng.choice(kinds_nan)
            a = np.array([rng.randint(-3, 3) for _ in range(n)], dtype="f8")
            for i in range(n):
                if rng.random() < rng.choice([0.0, 0.15, 0.6, 1.0]):
                    a[i] = np.nan
            code = KIND_CODE[kind] if kind.startswith("nan") else {"sum": 14, "min": 15, "max": 16, "mean": 17}[kind]
        else:
            kind = rng.choice(kinds_int)
            lo, hi = ((-2, 2) if kind == "prod" else (-3, 3))
            a = np.array([rng.randint(lo, hi) for _ in range(n)], dtype="i8")
            if kind == "prod" and n > 40:
                a = np.sign(a)
            code = KIND_CODE[kind]
        se = None if kind == "count_nonzero" else k
        keff = 16 if kind == "count_nonzero" else k
        depth = depth_of(len(chunks), keff)
        r = run_1d(da, kind, a, chunks, se)
        with warnings.catch_warnings():
            warnings.simplefilter("ignore")
            ref = getattr(np, kind)(a)
        chk.count(f"values1d:{kind}:{'nan' if nan_case else 'int'}:{'deep' if deep else 'small'}")
        chk.case(("val1d", kind, chunks, a.tolist() if n < 30 else hash(a.tobytes()), k), nontrivial=(len(chunks) > 1),
                 sample={"fn": "da." + kind, "data": a.tolist()[:12], "chunks": chunks[:12], "split_every": se, "impl": float(r), "numpy": float(ref)})
        same = (np.isnan(r) and np.isnan(ref)) or r == ref or (kind.endswith("mean") and np.isclose(r, ref, rtol=1e-12))
        if not same:
            chk.violation(f"da.{kind} differs from NumPy", {"fn": kind, "data": a.tolist(), "chunks": chunks, "split_every": se,
                                                            "impl": float(r), "numpy": float(ref)},
                          signature={"fn": kind, "class": "value-mismatch-1d"})
        if kind.endswith("mean"):
            exp = [None] if np.isnan(r) else list(float(r).as_integer_ratio())
        elif kind in ("any", "all"):
            exp = [int(bool(r))]
        else:
            exp = [None if (isinstance(r, (float, np.floating)) and np.isnan(r)) else int(r)]
        cases.append(ctuple(cz(code), cz(keff), cz(depth), clist(chunks), clist(a.tolist(), coz), clist(exp, coz)))
        kept.append((kind, chunks, a.tolist(), se, float(r)))
    mism, _ = coq_eval_cases(HEADER, "Z * Z * Z * list Z * list (option Z) * list (option Z)", VALUES_CHECK, cases, chunk=150)
    for i in mism[:5]:
        chk.tie_break("correspondence:chunk/combine/aggregate (1-D values)", dict(zip(["reduction", "chunks", "data", "split_every", "impl"], kept[i])))
    chk.traces_validated += len(cases) - len(mism)


def fam_var(chk, da, tier):
    """var / std on 1-D integer data: moment_chunk / moment_combine / moment_agg over exact
    rationals (coq/theories/TreeReduceMoment.v) vs the real pipeline, zero-size blocks included"""
    rng = chk.rng
    hdr = "From DA Require Import PyBase TreeReduce TreeReduceMoment.\nFrom Coq Require Import QArith.\nOpen Scope Z_scope.\n"
    inputs = [((2, 0, 2, 2), [0, 1, 2, 3, 4, 5], 2, 0), ((2, 0, 2, 2), [0, 1, 2, 3, 4, 5], 16, 0)]
    for _ in range(1200 if tier == "thorough" else 200):
        n = rng.choice([1, 2, 3, 5, 8, 13, 21])
        zero = rng.random() < 0.25
        chunks = rand_chunks(rng, n, zero=zero)
        inputs.append((chunks, [rng.randint(-5, 5) for _ in range(n)], rng.choice([2, 2, 3, 4, 16]), min(n, rng.choice([0, 0, 1, 1, 2, n]))))   # ddof = n: x/0 = inf (0/0 = nan) as in NumPy
    cases, kept = [], []
    for chunks, data, k, ddof in inputs:
        a = np.array(data, dtype="i8")
        x = da.from_array(a, chunks=(chunks,))
        with warnings.catch_warnings():
            warnings.simplefilter("ignore")
            r = float(da.var(x, ddof=ddof, split_every=k).compute(scheduler="sync"))
            ref = float(np.var(a, ddof=ddof))
        depth = depth_of(len(chunks), k)
        zero = 0 in chunks
        chk.count("var1d:" + ("zero-size-chunk" if zero else "plain") + f":depth{min(depth, 3)}")
        chk.case(("var1d", chunks, tuple(data), k, ddof), nontrivial=(len(chunks) > 1),
                 sample={"fn": "da.var", "data": data, "chunks": chunks, "split_every": k, "ddof": ddof, "impl": r, "numpy": ref})
        finite = math.isfinite(r)
        if not ((math.isnan(r) and math.isnan(ref)) or (math.isinf(r) and r == ref) or (finite and math.isfinite(ref) and abs(r - ref) <= 1e-9 * abs(ref) + 1e-12)):
            sig = dict(SIG_MOMENT_EMPTY) if (zero and math.isnan(r)) else {"fn": "var", "class": "value-mismatch-1d"}
            chk.violation(f"da.var = {r}, NumPy {ref}", {"fn": "var", "data": data, "chunks": chunks, "split_every": k, "ddof": ddof, "impl": r, "numpy": ref},
                          signature=sig)
        if math.isinf(r):
            continue       # x/0 with x != 0: outside the model (maps every non-finite value to None)
        if finite:
            p_, q_ = r.as_integer_ratio()
            lit = f"(Some ({p_} # {q_})%Q)"
        else:
            lit = "None"
        cases.append(ctuple(cz(ddof), cz(k), cz(depth), clist(chunks), clist(data), lit))
        kept.append((chunks, data, k, ddof, r))
    mism, _ = coq_eval_cases(
        hdr, "Z * Z * Z * list Z * list Z * option Q",
        "Definition chk (c : Z * Z * Z * list Z * list Z * option Q) : bool :=\n"
        "  let '(ddof, k, depth, chunks, data, r) := c in\n"
        "  match tree_reduce_1d (red_var ddof) k depth (split_chunks chunks data) with [v] => fq_close v r | _ => false end.",
        cases, chunk=120)
    for i in mism[:5]:
        chk.tie_break("correspondence:moment_chunk/moment_combine/moment_agg", dict(zip(["chunks", "data", "split_every", "ddof", "impl"], kept[i])))
    chk.traces_validated += len(cases) - len(mism)


def fam_values_nd(chk, R, da, tier):
    """axis=None arg reductions on N-D grids: the model (first best value in block-grid order)
    vs the real pipeline; NumPy (first in C order) is the property"""
    rng = chk.rng
    # corpus: F10 (tree of fan-in 2) and its tree-free form
    inputs = [("argmax", (4, 4), ((2, 2), (1, 1, 1, 1)), (np.arange(16).reshape(4, 4) % 7 - 3).ravel().tolist(), 2),
              ("argmax", (2, 4), ((2,), (2, 2)), [0, 0, 1, 0, 1, 0, 0, 0], None)]
    for _ in range(900 if tier == "thorough" else 160):
        ndim = rng.choice([2, 2, 3])
        chunks = tuple(rand_chunks(rng, rng.choice([1, 2, 3, 4, 5]), maxblocks=4) for _ in range(ndim))
        shape = tuple(sum(c) for c in chunks)
        span = rng.choice([1, 2, 50])
        data = [rng.randint(-span, span) for _ in range(math.prod(shape))]
        inputs.append((rng.choice(["argmax", "argmin"]), shape, chunks, data, rng.choice([None, 2, 4, 9, {0: 2, 1: 3}])))
    cases, kept = [], []
    for kind, shape, chunks, data, se in inputs:
        a = np.array(data, dtype="i8").reshape(shape)
        x = da.from_array(a, chunks=chunks)
        with Recorder(R) as rec:
            y = getattr(da, kind)(x, split_every=se)
        chain, base = chain_of(y.expr, R.PartialReduce)
        ks = [chain[0].split_every.get(i, 1) for i in range(len(shape))]
        depth = len(chain)
        r = int(y.compute(scheduler="sync"))
        ref = int(getattr(np, kind)(a))
        best = a.max() if kind == "argmax" else a.min()
        ties = int((a == best).sum())
        chk.count(f"valuesnd:{kind}:ndim{len(shape)}:" + ("tie" if ties > 1 else "unique"))
        chk.case(("valnd", kind, shape, chunks, tuple(data), repr(se)), nontrivial=(math.prod(len(c) for c in chunks) > 1),
                 sample={"fn": "da." + kind, "axis": None, "shape": shape, "chunks": chunks, "data": data[:16], "split_every": se, "impl": r, "numpy": ref})
        if r != ref:
            is_tie = ties > 1 and a.ravel()[r] == best
            chk.violation(f"da.{kind}(axis=None) returns flat index {r}, NumPy {ref}" + (" (another occurrence of the same extreme value)" if is_tie else ""),
                          {"fn": kind, "axis": None, "shape": shape, "chunks": chunks, "data": data, "split_every": se, "impl": r, "numpy": ref},
                          signature=SIG_F10 if is_tie else {"fn": "arg_reduction", "class": "wrong-index"})
        cases.append(ctuple(cbool(kind == "argmax"), clist(shape), clist(data), cchunks(chunks), clist(ks), cz(depth), cz(r)))
        kept.append((kind, shape, chunks, data, se, r))
    mism, _ = coq_eval_cases(
        HEADER, "bool * list Z * list Z * list (list Z) * list Z * Z * Z",
        "Definition chk (c : bool * list Z * list Z * list (list Z) * list Z * Z * Z) : bool :=\n"
        "  let '(ismax, shape, data, chunks, ks, depth, r) := c in\n"
        "  match nd_arg_ravel (if ismax then Z.gtb else Z.ltb) shape data chunks ks depth with\n"
        "  | [(_, Some v)] => v =? r | _ => false end.",
        cases, chunk=100)
    for i in mism[:5]:
        chk.tie_break("correspondence:arg_chunk/_arg_combine (axis=None, N-D)", dict(zip(["reduction", "shape", "chunks", "data", "split_every", "impl"], kept[i])))
    chk.traces_validated += len(cases) - len(mism)


# --------------------------------------------------------------------------
class NCProxy:
    def __init__(self, coll, rec):
        self._c, self._rec = coll, rec

    def __getitem__(self, idx):
        self._rec.append(idx)
        return self._c[idx]

    def __getattr__(self, name):
        return getattr(self._c, name)


def call_accept_slice(R, node, slice_expr):
    """node._accept_slice(slice_expr) with the input_index recorded (new_collection(input)[input_index])"""
    rec = []
    orig = R.new_collection
    R.new_collection = lambda e: NCProxy(orig(e), rec)
    try:
        res = node._accept_slice(slice_expr)
    finally:
        R.new_collection = orig
    return res, (rec[0] if rec else None)


def rand_index(rng, shape, allow_none=True):
    idx = []
    nfill = rng.randint(0, len(shape))
    for n in shape[:nfill]:
        r = rng.random()
        if r < 0.25 and n > 0:
            idx.append(rng.randint(-n, n - 1))
        elif r < 0.35:
            idx.append(slice(None))
        else:
            def ep():
                return None if rng.random() < 0.3 else rng.randint(-n - 1, n + 1)
            idx.append(slice(ep(), ep(), rng.choice([None, 1, 1, 2, 3, -1, -2])))
    return tuple(idx)


def fam_slices(chk, R, da, tier):
    rng = chk.rng
    from dask_array.slicing import SliceSlicesIntegers
    cases, kept = [], []
    corpus = [((6, 10), ((2, 2, 2), (3, 3, 4)), "sum", 0, False, (slice(2, 5),)),
              ((6, 10), ((2, 2, 2), (3, 3, 4)), "sum", 0, False, (-1,)),
              ((6, 10), ((2, 2, 2), (3, 3, 4)), "sum", 0, False, (slice(None, None, -2),)),
              ((6, 10), ((2, 2, 2), (3, 3, 4)), "sum", 1, True, (slice(1, 4), 0)),
              ((6, 10), ((2, 2, 2), (3, 3, 4)), "mean", (0, 1), True, (0, 0)),
              # x[:3:3] has chunks (1, 0): the pushed slice puts a zero-size block under chunk_max (finding C18-C)
              ((8, 2), ((2, 6), (1, 1)), "max", 1, False, (slice(None, 3, 3),))]
    inputs = list(corpus)
    for _ in range(2500 if tier == "thorough" else 450):
        ndim = rng.choice([1, 2, 2, 3, 3])
        chunks = tuple(rand_chunks(rng, rng.choice([1, 2, 3, 5, 8]), maxblocks=4) for _ in range(ndim))
        shape = tuple(sum(c) for c in chunks)
        kind = rng.choice(["sum", "sum", "max", "mean", "argmax", "var"])
        if kind == "argmax":
            axis = rng.randrange(ndim)
        else:
            axis = rng.choice([None, rng.randrange(ndim), tuple(sorted(rng.sample(range(ndim), rng.randint(1, ndim))))])
        keepdims = rng.random() < 0.4
        axes = tuple(range(ndim)) if axis is None else ((axis,) if isinstance(axis, int) else axis)
        out_shape = tuple((1 if i in axes else n) for i, n in enumerate(shape)) if keepdims else tuple(n for i, n in enumerate(shape) if i not in axes)
        inputs.append((shape, chunks, kind, axis, keepdims, rand_index(rng, out_shape)))
    for shape, chunks, kind, axis, keepdims, index in inputs:
        a = (np.arange(math.prod(shape)) * 7 % 11).astype("f8" if kind in ("mean", "var") else "i8").reshape(shape)
        x = da.from_array(a, chunks=chunks)
        f = getattr(da, kind)
        s = f(x, axis=axis, keepdims=keepdims, split_every=rng.choice([None, 2]))
        ref_full = getattr(np, kind)(a, axis=axis, keepdims=keepdims)
        try:
            ref = ref_full[index]
        except IndexError:
            continue
        y = s[index] if index else s[...]
        with warnings.catch_warnings():
            warnings.simplefilter("ignore")
            try:
                r = y.compute(scheduler="sync")
                err = None
            except Exception as ex:  # noqa: BLE001
                r, err = None, type(ex).__name__ + ": " + str(ex)[:100]
        pushed = "PartialReduce" in type(y.optimize().expr).__name__ or index == ()
        chk.count(f"slice-of-reduction:{kind}:" + ("keepdims" if keepdims else "drop"))
        chk.case(("slice", shape, chunks, kind, axis, keepdims, repr(index)), nontrivial=bool(index),
                 sample={"fn": f"da.{kind}(x, axis={axis}, keepdims={keepdims})[{index}]", "shape": shape, "chunks": chunks})
        data = {"fn": kind, "shape": shape, "chunks": chunks, "axis": axis, "keepdims": keepdims, "index": repr(index)}
        if err is not None:
            if "zero-size array to reduction" in err and kind in ("max", "min"):
                sig = dict(SIG_MINMAX_EMPTY)      # the pushed strided slice leaves a zero-size block under chunk_max
            elif "zero-size array to reduction" in err and kind == "argmax":
                sig = dict(SIG_ARG_EMPTY)
            else:
                sig = {"fn": "slice-of-reduction", "class": "raises", "reduction": kind}
            chk.violation("slice of a reduction raised: " + err, data, signature=sig)
        elif np.shape(r) != np.shape(ref) or not np.allclose(r, ref, rtol=1e-9, atol=1e-12, equal_nan=True):
            chk.violation("slice of a reduction differs from slicing NumPy's reduction", {**data, "impl": np.asarray(r).tolist(), "numpy": np.asarray(ref).tolist()},
                          signature={"fn": "slice-of-reduction", "class": "value-mismatch", "reduction": kind})
        # index-mapping correspondence on the logical node and on the lowered aggregate node
        e = y.expr
        if not isinstance(e, SliceSlicesIntegers):
            continue
        targets = [e.array]
        if isinstance(e.array, R.Reduction):
            low = e.array._lower()
            if isinstance(low, R.PartialReduce):
                targets.append(low)
        for node in targets:
            if isinstance(node, R.Reduction):
                reduced, kd = sorted(node.axis), bool(node.keepdims)
            elif isinstance(node, R.PartialReduce):
                reduced, kd = sorted(node.split_every), bool(node.keepdims)
            else:
                continue
            se_expr = SliceSlicesIntegers(node, e.index, e.allow_getitem_optimization)
            res, input_index = call_accept_slice(R, node, se_expr)
            if res is None:
                out = None
            else:
                final = res.index if isinstance(res, SliceSlicesIntegers) else None
                out = (input_index, final)
            in_shape = node.array.shape
            chk.count("accept_slice:" + type(node).__name__.replace("Sum", "Reduction").replace("Max", "Reduction").replace("Mean", "Reduction").replace("Var", "Reduction")
                      + ":" + ("declined" if out is None else "pushed"))
            # property: reduced axes are never forwarded
            if out is not None and any(out[0][ax] != slice(None) for ax in reduced):
                chk.violation("an index on a reduced axis was forwarded to the input", {**data, "input_index": repr(out[0])},
                              signature={"fn": "_accept_slice_impl", "class": "reduced-axis-forwarded"})
            cases.append(ctuple(clist(e.index, cidx), clist(in_shape), clist(reduced), cbool(kd),
                                copt(out, lambda o: ctuple(clist(o[0], cidx), copt(o[1], lambda fi: clist(fi, cidx))))))
            kept.append((shape, chunks, kind, axis, keepdims, repr(e.index), type(node).__name__, repr(out)))
    mism, _ = coq_eval_cases(
        HEADER, "list idx * list Z * list Z * bool * option (list idx * option (list idx))",
        "Definition ileqb := list_eqb idx_eqb.\n"
        "Definition chk (c : list idx * list Z * list Z * bool * option (list idx * option (list idx))) : bool :=\n"
        "  let '(index, shape, reduced, kd, out) := c in\n"
        "  match accept_slice index shape reduced kd, out with\n"
        "  | None, None => true\n"
        "  | Some (a, fa), Some (b, fb) => ileqb a b && match fa, fb with Some u, Some v => ileqb u v | None, None => true | _, _ => false end\n"
        "  | _, _ => false end.",
        cases, chunk=300)
    for i in mism[:5]:
        chk.tie_break("correspondence:_accept_slice_impl", dict(zip(["shape", "chunks", "reduction", "axis", "keepdims", "index", "node", "impl"], kept[i])))
    chk.traces_validated += len(cases) - len(mism)


# --------------------------------------------------------------------------
def np_moment(a, order, axis=None, keepdims=False, nan=False):
    mean = (np.nanmean if nan else np.mean)(a, axis=axis, keepdims=True)
    return (np.nanmean if nan else np.mean)((a - mean) ** order, axis=axis, keepdims=keepdims)


def np_topk(a, k, axis):
    s = np.sort(a, axis=axis)
    if k > 0:
        s = np.flip(s, axis=axis)
    return np.take(s, range(min(abs(k), a.shape[axis])), axis=axis)


PUBLIC = ["sum", "prod", "min", "max", "any", "all", "mean", "var", "std", "nansum", "nanprod", "nanmin", "nanmax",
          "nanmean", "nanvar", "nanstd", "argmin", "argmax", "nanargmin", "nanargmax", "moment", "count_nonzero",
          "ptp", "topk", "argtopk", "average"]


def make_data(rng, shape, flavour):
    n = math.prod(shape)
    if flavour == "int":
        a = np.array([rng.randint(-4, 4) for _ in range(n)], dtype="i8")
    elif flavour == "bool":
        a = np.array([rng.random() < 0.5 for _ in range(n)], dtype=bool)
    elif flavour == "float":
        a = np.array([rng.gauss(0, 3) for _ in range(n)], dtype="f8")
    else:  # nan: float with small integer values and NaNs
        a = np.array([rng.randint(-4, 4) for _ in range(n)], dtype="f8")
        p = rng.choice([0.1, 0.3, 0.8])
        for i in range(n):
            if rng.random() < p:
                a[i] = np.nan
    return a.reshape(shape)


def public_call(da, kind, x, a, axis, keepdims, se, extra):
    """returns (dask collection, numpy reference thunk)"""
    if kind in ("sum", "prod", "min", "max", "any", "all", "mean", "nansum", "nanprod", "nanmin", "nanmax", "nanmean"):
        return getattr(da, kind)(x, axis=axis, keepdims=keepdims, split_every=se), lambda: getattr(np, kind)(a, axis=axis, keepdims=keepdims)
    if kind in ("var", "std", "nanvar", "nanstd"):
        ddof = extra["ddof"]
        return getattr(da, kind)(x, axis=axis, keepdims=keepdims, ddof=ddof, split_every=se), lambda: getattr(np, kind)(a, axis=axis, keepdims=keepdims, ddof=ddof)
    if kind in ("argmin", "argmax", "nanargmin", "nanargmax"):
        return getattr(da, kind)(x, axis=axis, keepdims=keepdims, split_every=se), lambda: getattr(np, kind)(a, axis=axis, keepdims=keepdims)
    if kind == "moment":
        order = extra["order"]
        return da.moment(x, order, axis=axis, keepdims=keepdims, split_every=se), lambda: np_moment(a, order, axis=axis, keepdims=keepdims)
    if kind == "count_nonzero":
        return da.count_nonzero(x, axis=axis), lambda: np.count_nonzero(a, axis=axis)
    if kind == "ptp":
        return da.ptp(x, axis=axis), lambda: np.ptp(a, axis=axis)
    if kind == "topk":
        k = extra["k"]
        return da.topk(x, k, axis=axis, split_every=se), lambda: np_topk(a, k, axis)
    if kind == "argtopk":
        k = extra["k"]
        return da.argtopk(x, k, axis=axis, split_every=se), lambda: np_topk(a, k, axis)
    if kind == "average":
        w = extra["weights"]
        return da.average(x, axis=axis, weights=None if w is None else da.from_array(w, chunks=x.chunks), keepdims=keepdims), \
            lambda: np.average(a, axis=axis, weights=w, keepdims=keepdims)
    raise KeyError(kind)


def gen_public_case(rng, deep=False, zero=False):
    kind = rng.choice(PUBLIC)
    if deep:
        nblocks = rng.randint(30, 200)
        chunks = (tuple(rng.choice([1, 1, 2, 3]) for _ in range(nblocks)),)
        ndim = 1
    else:
        ndim = rng.choice([1, 2, 2, 3])
        chunks = tuple(rand_chunks(rng, rng.choice([1, 2, 3, 4, 6, 9, 13]), maxblocks=8 if ndim < 3 else 4, zero=(zero and rng.random() < 0.6))
                       for _ in range(ndim))
    shape = tuple(sum(c) for c in chunks)
    nanlike = kind.startswith("nan")
    if kind in ("any", "all"):
        flavour = rng.choice(["bool", "int"])
    elif kind == "count_nonzero":
        flavour = rng.choice(["int", "bool", "float"])
    elif nanlike:
        flavour = rng.choice(["nan", "nan", "float", "int"])
    elif kind in ("sum", "min", "max", "mean", "argmax", "argmin", "var", "std"):
        flavour = rng.choice(["int", "float", "nan", "int"])
    elif kind == "prod":
        flavour = rng.choice(["int", "float"])
    elif kind in ("topk", "argtopk"):
        flavour = rng.choice(["int", "float"])
    else:
        flavour = rng.choice(["int", "float"])
    if kind in ("argmin", "argmax", "nanargmin", "nanargmax"):
        axis = rng.choice([None] + list(range(ndim)))
    elif kind in ("topk", "argtopk", "ptp"):
        axis = rng.randrange(ndim) if kind != "ptp" or rng.random() < 0.7 else None
    else:
        r = rng.random()
        if r < 0.3:
            axis = None
        elif r < 0.7:
            axis = rng.randrange(-ndim, ndim)
        else:
            axis = tuple(sorted(rng.sample(range(ndim), rng.randint(1, ndim))))
    keepdims = rng.random() < 0.4
    axes = tuple(range(ndim)) if axis is None else ((axis % ndim,) if isinstance(axis, int) else axis)
    se = 2 if deep else rand_split_every(rng, axes)
    extra = {}
    if kind in ("var", "std", "nanvar", "nanstd"):
        extra["ddof"] = rng.choice([0, 0, 1])
    if kind == "moment":
        extra["order"] = rng.choice([2, 3, 4])
    if kind in ("topk", "argtopk"):
        extra["k"] = rng.choice([1, 2, 3, -1, -2])
    seed = rng.getrandbits(32)
    if kind == "average":
        extra["wseed"] = rng.choice([None, seed])
    return {"kind": kind, "chunks": chunks, "flavour": flavour, "axis": axis, "keepdims": keepdims, "split_every": se, "extra": extra, "seed": seed}


def classify(case, a, r, ref, err, referr):
    kind = case["kind"]
    zero_chunk = any(0 in c for c in case["chunks"]) and a.size > 0
    if err and not referr:
        if zero_chunk and kind in ("argmin", "argmax", "nanargmin", "nanargmax") and "zero-size array" in err:
            return dict(SIG_ARG_EMPTY)
        if zero_chunk and kind in ("min", "max", "nanmin", "nanmax", "ptp"):
            return dict(SIG_MINMAX_EMPTY)
        if kind == "argtopk":
            ax = case["axis"]
            if abs(case["extra"]["k"]) >= a.shape[ax] and len(case["chunks"][ax]) > 1:
                return dict(SIG_ARGTOPK_K)
            if zero_chunk:
                return dict(SIG_ARGTOPK_EMPTY)
        return {"fn": kind, "class": "raises", "error": err.split(":")[0], "zero_size_chunks": zero_chunk}
    if referr and not err:
        return {"fn": kind, "class": "numpy-raises-dask-does-not", "error": referr.split(":")[0]}
    if zero_chunk and kind in ("var", "std", "moment") and np.isnan(np.asarray(r, dtype="f8")).any() and not np.isnan(np.asarray(ref, dtype="f8")).all():
        return dict(SIG_MOMENT_EMPTY)
    if kind in ("argmin", "argmax", "nanargmin", "nanargmax") and case["axis"] is None and a.ndim > 1:
        with warnings.catch_warnings():
            warnings.simplefilter("ignore")
            best = (np.nanmax if "max" in kind else np.nanmin)(a) if not np.isnan(a).all() else np.nan
        flat = a.ravel()
        ri = int(np.asarray(r).ravel()[0])
        if 0 <= ri < flat.size and (flat[ri] == best or (np.isnan(flat[ri]) and not kind.startswith("nan"))):
            return dict(SIG_F10)
    return {"fn": kind, "class": "value-mismatch", "zero_size_chunks": zero_chunk, "flavour": case["flavour"]}


def run_public_case(da, case):
    import random
    rng = random.Random(case["seed"])
    kind, chunks, axis, keepdims, se, extra = (case[k] for k in ("kind", "chunks", "axis", "keepdims", "split_every", "extra"))
    shape = tuple(sum(c) for c in chunks)
    a = make_data(rng, shape, case["flavour"])
    extra = dict(extra)
    if kind == "average":
        ws = extra.pop("wseed", None)
        extra["weights"] = None if ws is None else np.array([random.Random(ws + i).randint(1, 5) for i in range(a.size)], dtype="f8").reshape(shape)
    x = da.from_array(a, chunks=chunks)
    r = ref = err = referr = None
    with warnings.catch_warnings():
        warnings.simplefilter("ignore")
        try:
            y, thunk = public_call(da, kind, x, a, axis, keepdims, se, extra)
        except Exception as ex:  # noqa: BLE001
            y, thunk = None, None
            err = type(ex).__name__ + ": " + str(ex)[:120]
        if y is not None:
            try:
                r = y.compute(scheduler="sync")
            except Exception as ex:  # noqa: BLE001
                err = type(ex).__name__ + ": " + str(ex)[:120]
        try:
            if thunk is None:
                _, thunk = public_call(_NoDa(), kind, x, a, axis, keepdims, se, extra)
            ref = thunk()
        except Exception as ex:  # noqa: BLE001
            referr = type(ex).__name__ + ": " + str(ex)[:120]
    ok = True
    if err or referr:
        ok = bool(err) and bool(referr)
    else:
        r_, ref_ = np.asarray(r), np.asarray(ref)
        if kind == "argtopk":
            # indices -> values (ties may legitimately pick different positions)
            ax = axis
            r_ = np.take_along_axis(a, np.asarray(r), axis=ax)
        if r_.shape != ref_.shape:
            ok = False
        elif r_.dtype.kind in "iub" and ref_.dtype.kind in "iub":
            ok = bool((r_ == ref_).all())
        else:
            scale = float(np.nanmax(np.abs(a))) if a.size and not np.isnan(a).all() else 1.0
            order = extra.get("order", 2 if kind in ("var", "nanvar") else 1)
            ok = bool(np.allclose(r_.astype("f8"), ref_.astype("f8"), rtol=1e-9, atol=1e-11 * max(scale, 1.0) ** order, equal_nan=True))
    return a, r, ref, err, referr, ok


class _NoDa:
    def __getattr__(self, name):
        return lambda *a, **k: None


def fam_public(chk, da, tier):
    rng = chk.rng
    # corpus first: known findings, minimal reproducers
    corpus = [
        # zero-size block + a combine level: moment_combine divides totals by ns == 0 without the guard moment_agg has
        {"kind": "var", "chunks": ((2, 0, 2, 2),), "flavour": "int", "axis": None, "keepdims": False, "split_every": 2, "extra": {"ddof": 0}, "seed": 1},
        # explicit zero-size block: np.max of the empty block raises in arg_chunk
        {"kind": "argmax", "chunks": ((2, 0, 2),), "flavour": "int", "axis": None, "keepdims": False, "split_every": None, "extra": {}, "seed": 2},
    ]
    cases = list(corpus)
    n_small = 9000 if tier == "thorough" else 1500
    for _ in range(n_small):
        cases.append(gen_public_case(rng))
    for _ in range(300 if tier == "thorough" else 40):
        cases.append(gen_public_case(rng, deep=True))
    for _ in range(1200 if tier == "thorough" else 150):
        cases.append(gen_public_case(rng, zero=True))
    for case in cases:
        a, r, ref, err, referr, ok = run_public_case(da, case)
        kind = case["kind"]
        nblocks = math.prod(len(c) for c in case["chunks"])
        chk.count(f"public:{kind}")
        chk.count("public:flavour:" + case["flavour"])
        chk.count("public:split_every:" + ("none" if case["split_every"] is None else "dict" if isinstance(case["split_every"], dict) else "int"))
        if any(0 in c for c in case["chunks"]):
            chk.count("public:zero-size-chunks")
        if err and referr:
            chk.count("public:both-raise")
        chk.case(("pub", json.dumps(case, sort_keys=True, default=str)), nontrivial=(nblocks > 1),
                 sample={"fn": "da." + kind, **{k: case[k] for k in ("chunks", "axis", "keepdims", "split_every", "flavour")}})
        if not ok:
            sig = classify(case, a, r, ref, err, referr)
            chk.violation(f"da.{kind} disagrees with NumPy",
                          {"fn": kind, "case": case, "data": a.tolist() if a.size <= 64 else "<seeded>",
                           "impl": err or np.asarray(r).tolist(), "numpy": referr or np.asarray(ref).tolist()},
                          signature=sig)


def fam_malformed(chk, da, tier):
    """split_every dict entries of 1 are outside the documented domain (int >= 2); the tree
    builder skips such an axis when computing the depth but still collapses it"""
    a = np.arange(20)
    x = da.from_array(a, chunks=2)
    r = int(x.sum(split_every={0: 1}).compute(scheduler="sync"))
    chk.count("malformed:split_every-one")
    chk.case(("malformed", "se1"), nontrivial=True)
    if r != int(a.sum()):
        chk.violation(f"x.sum(split_every={{0: 1}}) = {r}, NumPy {int(a.sum())}",
                      {"fn": "sum", "chunks": ((2,) * 10,), "split_every": {0: 1}, "impl": r, "numpy": int(a.sum())},
                      signature=dict(SIG_SE_ONE))
    # the model reproduces it: aggregate layer of fan-in 1, keepdims=False -> the last block wins
    out = coq_eval_expr(HEADER, ["dict_last (tree_reduce_1d red_sum 1 1 (split_chunks [2;2;2;2;2;2;2;2;2;2] (zrange0 20)))"])[0]
    if f"[{r}]" not in out.replace(" ", ""):
        chk.tie_break("correspondence:split_every={0:1}", {"impl": r, "model": out})
    else:
        chk.traces_validated += 1


# --------------------------------------------------------------------------
def replay(path):
    import dask_array as da
    r = json.load(open(path))
    print(json.dumps(r, indent=1)[:4000])
    d = r.get("data", {})
    if "case" in d:
        case = d["case"]
        case["chunks"] = tuple(tuple(c) for c in case["chunks"])
        if isinstance(case["axis"], list):
            case["axis"] = tuple(case["axis"])
        if isinstance(case["split_every"], dict):
            case["split_every"] = {int(k): v for k, v in case["split_every"].items()}
        a, res, ref, err, referr, ok = run_public_case(da, case)
        print("data:", a.tolist())
        print("impl now:", err or np.asarray(res).tolist())
        print("numpy   :", referr or np.asarray(ref).tolist())
        print("agrees  :", ok)
    elif d.get("fn") in ("argmax", "argmin") and "data" in d:
        a = np.array(d["data"]).reshape(d["shape"])
        x = da.from_array(a, chunks=tuple(tuple(c) for c in d["chunks"]))
        se = d.get("split_every")
        if isinstance(se, dict):
            se = {int(k): v for k, v in se.items()}
        print("impl now:", int(getattr(da, d["fn"])(x, split_every=se).compute()), "numpy:", int(getattr(np, d["fn"])(a)))


def fam_indexed_keepdims(chk, da, tier):
    """an index applied to the result of a reduction that KEEPS its reduced axis (keepdims=True, topk / argtopk with k > 1): the slice
    pushed through the reduction must select what indexing the computed result selects, for every chunking and fan-in"""
    import random as _random
    import warnings as _w
    rng = _random.Random(f"C18-indexed-keepdims-{chk.seed}")
    for it in range(1500 if tier == "thorough" else 160):
        rows, cols = rng.choice([4, 6, 7]), rng.choice([8, 12, 16])
        a = np.random.RandomState(rng.randrange(2 ** 31)).permutation(rows * cols).reshape(rows, cols).astype("f8")
        chunks = (rng.choice([1, 2, 3, rows]), rng.choice([2, 4, 5, cols]))
        se = rng.choice([None, 2, 3])
        ax = rng.choice([0, 1])
        kind = rng.choice(["topk", "topk", "topk-neg", "argtopk", "sum-keepdims", "max-keepdims"])
        k = rng.choice([2, 3])
        with _w.catch_warnings():
            _w.simplefilter("ignore")
            x = da.from_array(a, chunks=chunks)
            if kind == "topk":
                t, full = da.topk(x, k, axis=ax, split_every=se), np.flip(np.sort(a, axis=ax), axis=ax).take(range(k), axis=ax)
            elif kind == "topk-neg":
                t, full = da.topk(x, -k, axis=ax, split_every=se), np.sort(a, axis=ax).take(range(k), axis=ax)
            elif kind == "argtopk":
                t, full = da.argtopk(x, k, axis=ax, split_every=se), np.flip(np.argsort(a, axis=ax), axis=ax).take(range(k), axis=ax)
            elif kind == "sum-keepdims":
                t, full = x.sum(axis=ax, keepdims=True, split_every=se), a.sum(axis=ax, keepdims=True)
            else:
                t, full = x.max(axis=ax, keepdims=True, split_every=se), a.max(axis=ax, keepdims=True)
            n_red = full.shape[ax]
            n_oth = full.shape[1 - ax]
            on_red = rng.choice([rng.randrange(-n_red, n_red), slice(None), slice(0, n_red), slice(None, None, -1)])
            lo = rng.randrange(0, n_oth - 1)
            on_oth = rng.choice([slice(lo, rng.randrange(lo + 1, n_oth + 1)), rng.randrange(-n_oth, n_oth), slice(None), slice(n_oth // 2, None)])
            idx = (on_red, on_oth) if ax == 0 else (on_oth, on_red)
            try:
                got = t[idx].compute(scheduler="sync")
                err = None
            except Exception as e:  # noqa: BLE001
                got, err = None, type(e).__name__ + ": " + str(e)[:80]
        want = full[idx]
        desc = {"fn": kind, "k": k, "axis": ax, "split_every": se, "shape": (rows, cols), "chunks": chunks, "index": repr(idx)}
        chk.count("indexed-keepdims:" + kind)
        chk.case(("indexed-keepdims", kind, k, ax, se, rows, cols, chunks, repr(idx)), nontrivial=True, sample=desc if it < 2 else None)
        if err is not None:
            chk.violation(f"indexing the result of {kind} raises {err}", desc, signature={"fn": kind, "class": "indexed-result-raises", "error": re.sub(r"[0-9]+", "#", err)[:40]})
        elif np.shape(got) != np.shape(want) or not np.array_equal(got, want):
            chk.violation(f"{kind}(...)[index] differs from indexing the computed result", {**desc, "got": np.asarray(got).tolist(), "want": np.asarray(want).tolist()},
                          signature={"fn": kind, "class": "indexed-result-value"})
        else:
            chk.traces_validated += 1


def run(chk: Check):
    import dask_array as da
    import dask_array.reductions._reduction as R
    chk.rule = ("corpus of known findings + exhaustive-ish small + generated (shape<=13/axis, <=8 blocks/axis, 1-3 dims; 1-D with up to 200 blocks "
                "and fan-in 2) x axis sets x keepdims x split_every (None/int/per-axis dict) x dtype (int/bool/float/NaN-bearing); each case: "
                "(a) impl vs Gallina model: _normalize_split_every, tree depth (float log recorded as oracle), PartialReduce.chunks per level, "
                "every PartialReduce._layer key->dependencies, 1-D chunk/combine/aggregate values on exact carriers (incl. var over exact rationals), N-D axis=None arg reductions, "
                "_accept_slice_impl index mapping; (b) impl vs NumPy on the whole array (exact for ints, rtol 1e-9 for floats) for all public "
                "reductions and slices of reductions; non-trivial = more than one block / more than one tree level / non-empty index")
    chk.assumptions = ["float results are compared with rtol 1e-9 (tree order changes rounding); the exact-carrier model speaks about the algebraic structure, not IEEE rounding",
                       "math.ceil(math.log(n, k)) >= exact ceil(log_k n) is a CHECKED precondition (logs_ok) on every generated case, not an assumption of the theorems' conclusions beyond C18_depth_reaches_one",
                       "the dask scheduler executes a task graph faithfully (scheduler='sync')"]
    chk.trusted_base = ["oracle recording by shadowing int/math in dask_array.reductions._reduction's module namespace and new_collection during _accept_slice (harness/c18.py:Recorder, call_accept_slice)"]
    chk.run_proofs()
    fam_normalize(chk, R, chk.tier)
    fam_structure(chk, R, da, chk.tier)
    fam_values_1d(chk, da, chk.tier)
    fam_values_nd(chk, R, da, chk.tier)
    fam_var(chk, da, chk.tier)
    fam_slices(chk, R, da, chk.tier)
    fam_malformed(chk, da, chk.tier)
    fam_public(chk, da, chk.tier)
    fam_indexed_keepdims(chk, da, chk.tier)
