"""C29 — building and inspecting arrays never touches data."""
from __future__ import annotations

import re
import threading
import warnings

import numpy as np

import progs
from common import Check, cbool, clist, cnat, copt, coq_eval_cases, cslice, ctuple, cz


class RecordingSource:
    """A non-NumPy array-like: logs every __getitem__ / __array__ with the size of what was requested."""

    def __init__(self, data, log, tag):
        self._data = data
        self.shape = data.shape
        self.dtype = data.dtype
        self.ndim = data.ndim
        self._log = log
        self._tag = tag

    def __getitem__(self, key):
        out = self._data[key]
        self._log.append(("getitem", self._tag, repr(key), int(np.size(out)), key))
        return out

    def __array__(self, dtype=None, copy=None):
        self._log.append(("__array__", self._tag, "", int(self._data.size)))
        return np.asarray(self._data, dtype=dtype)

    def __len__(self):
        return self.shape[0]


CALLS = []


def rec_block(b):
    CALLS.append(("block", tuple(b.shape), int(b.size)))
    return b + 1


def rec_block_info(b, block_info=None):
    CALLS.append(("block_info", tuple(b.shape), int(b.size)))
    return b * 2


def err_sig(e):
    return re.sub(r"[0-9(),\[\]'-]+", "#", f"{type(e).__name__}: {e}")[:36]


def inspect_everything(x):
    """all metadata accessors of the property + optimize()"""
    out = [x.shape, x.chunks, x.dtype, x.name, x.numblocks, x.ndim, x.size, x.nbytes, x.chunksize, repr(x), str(x)]
    try:
        out.append(len(x))
    except (TypeError, ValueError):
        pass
    out.append(x.__dask_keys__())
    e = x.expr
    for node in e.walk():
        tb = getattr(node, "transfer_bytes", None)
        out.append(tb)
    opt = x.optimize()
    out += [opt.chunks, opt.shape, opt.name]
    simp = x.simplify()
    out.append(simp.chunks)
    try:
        out.append(x._repr_html_())
    except Exception:  # noqa: BLE001
        pass
    import dask_array as da
    out.append(da.chunk_report(x))
    out.append(repr(da.explain(x)))
    return out


# --------------------------------------------------------------------------
# model correspondence: coq/theories/MetaModel.v  vs  dask_array._utils.meta_from_array / compute_meta
# and FromArray._meta
HEADER = "From DA Require Import PyBase MetaModel.\nOpen Scope Z_scope.\n"


class DuckSource(RecordingSource):
    """RecordingSource that dask.utils.is_arraylike accepts (a duck array: has __array_ufunc__)."""
    __array_ufunc__ = None


class RaisingSource(RecordingSource):
    """logs the request, then refuses it (exercises the `except Exception` fallback of meta_from_array)"""

    def __getitem__(self, key):
        out = self._data[key]
        self._log.append(("getitem", self._tag, repr(key), int(np.size(out)), key))
        raise TypeError("this source does not support that index")


def key_lit(key):
    """index tuple of int/None slices -> Coq `list pslice` literal (None when it is anything else)"""
    if not isinstance(key, tuple):
        return None
    for s in key:
        if not isinstance(s, slice) or any(v is not None and not isinstance(v, (int, np.integer)) for v in (s.start, s.stop, s.step)):
            return None
    return clist(key, cslice)


def requests_lit(log):
    """[(idx, size)] literal of the getitem entries of a log; None if some request cannot be written"""
    out = []
    for e in log:
        if e[0] != "getitem":
            return None
        k = key_lit(e[4])
        if k is None:
            return None
        out.append(ctuple(k, cz(e[3])))
    return "[" + "; ".join(out) + "]"


def oracle_requests(chk, log, phase, where):
    """the property itself: no request to a (non-NumPy) source may return elements"""
    bad = [e for e in log if e[3] > 0]
    for e in bad[:1]:
        chk.violation(f"{phase} read data from a source: {e[0]}{e[2]} ({e[3]} element(s))", {**where, "requests": [x[:4] for x in bad[:3]]},
                      signature={"class": "source-read", "how": e[0], "request": e[2], "phase": phase})
    return not bad


DTYPES = ["int64", "float32", "bool", "complex128"]


def gen_shapes(rng, tier):
    shapes = [()]
    shapes += [(n,) for n in (0, 1, 2, 3, 7)]
    shapes += [(a, b) for a in (0, 1, 2, 3) for b in (0, 1, 2, 3)]
    for nd in (3, 4):
        shapes += [tuple([k] * nd) for k in (0, 1, 2)]
        for _ in range(120 if tier == "thorough" else 14):
            shapes.append(tuple(rng.choice([0, 1, 1, 2, 3, 4]) for _ in range(nd)))
    return shapes


def mk_data(rng, shape, dtype):
    n = int(np.prod(shape, dtype=int))
    return (np.arange(1, n + 1) % 5 + 1).astype(dtype).reshape(shape)


def fam_meta_from_array(chk, da):
    """meta_from_array on recording sources: requests (index + size) and result shape == model"""
    from dask_array._utils import meta_from_array
    rng = chk.rng
    inputs = [((), None, "int64", None, False)]          # corpus: F31, the 0-d source
    for shape in gen_shapes(rng, chk.tier):
        nd = len(shape)
        targets = sorted({0, max(nd - 1, 0), nd, nd + 1, nd + 2}) + [None]
        for t in targets:
            combos = [(d, a) for d in DTYPES for a in (None, "same", "float64")] if chk.tier == "thorough" else \
                [(rng.choice(DTYPES), rng.choice([None, "same", "float64"])) for _ in range(2)]
            for d, a in combos:
                inputs.append((shape, t, d, d if a == "same" else a, False))
            if rng.random() < 0.35:
                inputs.append((shape, t, rng.choice(DTYPES), None, True))
    cases, kept = [], []
    for (shape, t, d, dt_arg, raises) in inputs:
        log = []
        src = (RaisingSource if raises else RecordingSource)(mk_data(rng, shape, d), log, 0)
        with warnings.catch_warnings():
            warnings.simplefilter("ignore")
            meta = meta_from_array(src, ndim=t, dtype=dt_arg)
        where = {"call": f"meta_from_array(<{'raising ' if raises else ''}array-like shape={shape} dtype={d}>, ndim={t}, dtype={dt_arg})"}
        rel = "none" if t is None else "zero" if t == 0 and len(shape) > 0 else "smaller" if t < len(shape) else "equal" if t == len(shape) else "larger"
        chk.count(f"meta_from_array:xndim{len(shape)}:target-{rel}" + (":raises" if raises else ""))
        chk.case(("mfa", shape, t, d, dt_arg, raises), nontrivial=len(shape) > 0,
                 sample={**where, "requests": [e[:4] for e in log], "meta_shape": tuple(meta.shape)} if len(cases) in (0, 40) else None)
        ok = oracle_requests(chk, log, "meta_from_array", where)
        want_nd = len(shape) if t is None else t
        if not isinstance(meta, np.ndarray) or (want_nd >= 1 and meta.size > 0):
            ok = False
            chk.violation(f"meta_from_array returned a non-empty / non-array meta {type(meta).__name__} shape {getattr(meta, 'shape', None)}", where,
                          signature={"class": "nonempty-meta", "phase": "meta_from_array"})
        reqs = requests_lit(log)
        if reqs is None:
            chk.tie_break("correspondence:meta_from_array made a request the model cannot express", {**where, "requests": [e[:4] for e in log]})
            continue
        cases.append(ctuple(cbool(raises), clist(shape), copt(t, cnat), reqs, clist(meta.shape)))
        kept.append((where, [e[:4] for e in log], tuple(meta.shape)))
        if ok:
            chk.traces_validated += 1
    mism, _ = coq_eval_cases(
        HEADER, "bool * list Z * option nat * list (list pslice * Z) * list Z",
        "Definition chk (c : bool * list Z * option nat * list (list pslice * Z) * list Z) : bool :=\n"
        "  let '(r, xs, nd, reqs, out) := c in\n"
        "  requests_eqb (map fst reqs) (meta_from_array_requests (length xs)) && forallb (logged_request_ok xs) reqs\n"
        "  && zlist_eqb out (meta_from_array_shape_gen r xs nd).",
        cases)
    for i in mism[:5]:
        chk.tie_break("correspondence:meta_from_array (requests / request sizes / result shape differ from the model)",
                      {**kept[i][0], "impl_requests": kept[i][1], "impl_meta_shape": kept[i][2]})
    chk.traces_validated += len(cases) - len(mism)


def fam_from_array_meta(chk, da):
    """da.from_array over a recording source + every metadata accessor: the source sees exactly the one
    request of FromArray._meta (cached), and the meta has the model's shape"""
    rng = chk.rng
    cases, kept = [], []
    shapes = gen_shapes(rng, chk.tier)
    if chk.tier != "thorough":
        shapes = shapes[:30] + rng.sample(shapes[30:], 10)
    for shape in shapes:
        log = []
        d = rng.choice(DTYPES)
        src = RecordingSource(mk_data(rng, shape, d), log, 0)
        chunks = tuple(rng.choice([max(n, 1), 1, 2]) for n in shape)
        where = {"call": f"da.from_array(<array-like shape={shape} dtype={d}>, chunks={chunks}) + metadata accessors"}
        try:
            with warnings.catch_warnings():
                warnings.simplefilter("ignore")
                x = da.from_array(src, chunks=chunks)
                m1, m2 = x._meta, x.expr._meta
                _ = (x.shape, x.chunks, x.dtype, x.name, x.numblocks, x.ndim, x.size, x.nbytes, repr(x), x.__dask_keys__())
                o = x.optimize()
                _ = (o._meta, o.chunks, x._meta, x.expr._meta)
        except Exception as e:  # noqa: BLE001
            chk.count("from_array:skipped:" + err_sig(e)[:24])
            continue
        chk.count(f"from_array:xndim{len(shape)}")
        chk.case(("fa", shape, chunks, d), nontrivial=len(shape) > 0,
                 sample={**where, "requests": [e[:4] for e in log], "meta_shape": tuple(m1.shape)} if len(cases) == 7 else None)
        ok = oracle_requests(chk, log, "construction", where)
        reqs = requests_lit(log)
        if reqs is None or m1 is not m2:
            chk.tie_break("correspondence:FromArray._meta (request not expressible / meta not cached)", {**where, "requests": [e[:4] for e in log]})
            continue
        cases.append(ctuple(clist(shape), reqs, clist(m1.shape)))
        kept.append((where, [e[:4] for e in log], tuple(m1.shape)))
        if ok:
            chk.traces_validated += 1
    mism, _ = coq_eval_cases(
        HEADER, "list Z * list (list pslice * Z) * list Z",
        "Definition chk (c : list Z * list (list pslice * Z) * list Z) : bool := let '(xs, reqs, out) := c in\n"
        "  requests_eqb (map fst reqs) (from_array_meta_requests (length xs)) && forallb (logged_request_ok xs) reqs\n"
        "  && zlist_eqb out (from_array_meta_shape xs).",
        cases)
    for i in mism[:5]:
        chk.tie_break("correspondence:FromArray._meta (requests / result shape differ from the model)",
                      {**kept[i][0], "impl_requests": kept[i][1], "impl_meta_shape": kept[i][2]})
    chk.traces_validated += len(cases) - len(mism)


REC = []


def shape_of(v):
    return tuple(int(n) for n in v.shape) if isinstance(v, (np.ndarray, np.generic)) else None


def rec_func(*a, **k):
    """the recorded `user function` of compute_meta: logs the shapes / sizes of what it is called with"""
    REC.append(([(shape_of(v), int(np.size(v)) if shape_of(v) is not None else 0) for v in a],
                [(shape_of(v), int(np.size(v)) if shape_of(v) is not None else 0) for v in k.values()]))
    for v in list(a) + list(k.values()):
        if isinstance(v, np.ndarray):
            return v
    return np.empty((0,))


def real_arrays(chk, da):
    """a pool of real dask_array collections (hand-written incl. 0-d and expanded 0-d ones + generated programs);
    checks the meta invariant on every node of every expression and returns [(label, Array)]"""
    from dask_array._expr import ArrayExpr
    rng = chk.rng
    x = da.from_array(np.arange(24).reshape(2, 3, 4), chunks=(1, 2, 2))
    v = da.from_array(np.arange(6), chunks=3)
    z = da.from_array(np.array(7), chunks=())
    pool = [("v.sum()[None]", v.sum()[None]),                          # corpus: C29-B (meta shape (1,))
            ("x.sum()", x.sum()), ("from_array(0-d)", z),              # corpus: F33 (0-d metas)
            ("from_array(0-d)[None]", z[None]), ("x", x), ("v", v), ("x.sum(axis=1)", x.sum(axis=1)), ("x[0]", x[0]), ("x[0,0,0]", x[0, 0, 0]),
            ("x[:,None]", x[:, None]), ("x.T", x.T), ("x+1", x + 1), ("x.mean()", x.mean()), ("x.argmax()", x.argmax()),
            ("concatenate", da.concatenate([x, x])), ("x.reshape", x.reshape(6, 4)), ("x.rechunk(2)", x.rechunk(2)),
            ("x.cumsum(0)", x.cumsum(axis=0)), ("x.max((0,1))", x.max(axis=(0, 1))), ("x[[0,1]]", x[[0, 1]]),
            ("v.sum()[None,None]+x[0]", v.sum()[None, None] + x[0]), ("zeros((0,3))", da.zeros((0, 3), chunks=2)),
            ("x.map_blocks(dtype)", x.map_blocks(progs.mb_double, dtype=x.dtype))]
    for _ in range(600 if chk.tier == "thorough" else 60):
        g = progs.Gen(rng, ops=progs.CORE_OPS + ["swv", "roll", "take", "repeat", "broadcast_to", "reshape"], sources=[])
        p, _v = g.program(rng.choice([1, 2, 3, 4]))
        try:
            with warnings.catch_warnings():
                warnings.simplefilter("ignore")
                pool.append((progs.show(p)[:60], progs.build(p, da, list(g.sources), memo={})))
        except Exception as e:  # noqa: BLE001
            chk.count("compute_meta:pool-skipped:" + err_sig(e)[:24])
    # ASSUMPTION CHECK of C29_compute_meta_calls_on_empty on every node: _meta has no elements unless 0-d
    # (and, informative only, the nominal invariant _meta.shape == (0,)*ndim)
    for label, arr in pool:
        with warnings.catch_warnings():
            warnings.simplefilter("ignore")
            roots = [arr.expr]
            try:
                roots.append(arr.optimize().expr)
            except Exception:  # noqa: BLE001
                pass
        for ri, root in enumerate(roots):
            nodes = [n for n in root.walk() if isinstance(n, ArrayExpr)]
            bad = {}
            for n in nodes:
                m = n._meta
                sh = getattr(m, "shape", None)
                chk.count("expr-meta-invariant:nodes-checked")
                if sh is None:
                    chk.count("expr-meta-invariant:no-shape:" + type(n).__name__)
                    continue
                if tuple(sh) != (0,) * n.ndim:
                    chk.count("expr-meta-invariant:not-nominal-but-" + ("NONEMPTY" if np.size(m) > 0 else "empty"))
                if len(sh) >= 1 and np.size(m) > 0:
                    bad[n._name] = n
            for n in bad.values():
                if not any(getattr(dep, "_name", None) in bad for dep in n.dependencies()):     # where it starts
                    chk.violation(f"the _meta of a {n.ndim}-d {type(n).__name__} node has {np.size(n._meta)} element(s) (shape {tuple(n._meta.shape)}): "
                                  "whatever is called on it while building runs on a non-empty array",
                                  {"expression": label, "node": type(n).__name__, "meta_shape": tuple(n._meta.shape), "ndim": n.ndim},
                                  signature={"class": "nonempty-expr-meta", "origin": type(n).__name__, "expression": "optimized" if ri else "as-built"})
    return pool


def cmarg(a):
    kind, sh = a
    return "MOther" if kind == "MOther" else f"({kind} {clist(sh)})"


def fam_compute_meta(chk, da):
    """compute_meta(rec_func, dtype, *args, **kwargs) with expressions, collections, duck sources, non-duck
    objects and scalars: per-argument requests and the shapes rec_func is called with == model"""
    from dask_array._utils import compute_meta
    rng = chk.rng
    pool = real_arrays(chk, da)
    shapes = gen_shapes(rng, "quick")

    def make_arg(kind, pos, forced=None):
        """-> (python object, model literal tuple, log or None, description)"""
        if kind == "expr":
            label, arr = forced or rng.choice(pool)
            m = arr.expr._meta
            return arr.expr, ("MExprArg", tuple(m.shape)), None, f"<expr {label}>"
        if kind == "coll":
            label, arr = forced or rng.choice(pool)
            return arr, ("MCollection", tuple(arr._meta.shape)), None, f"<Array {label}>"
        if kind == "duck":
            shape = forced if forced is not None else rng.choice(shapes)
            log = []
            return DuckSource(mk_data(rng, shape, rng.choice(DTYPES)), log, pos), ("MArrayLike", shape), log, f"<duck array-like {shape}>"
        if kind == "nonduck":
            shape = rng.choice(shapes)
            log = []
            return RecordingSource(mk_data(rng, shape, "int64"), log, pos), ("MOther", None), log, f"<non-duck array-like {shape}>"
        val = rng.choice([3, 2.5, "abc", None, True, (1, 2)])
        return val, ("MOther", None), None, repr(val)

    plans = [([("expr", pool[0])], []),                       # corpus C29-B: expression meta of shape (1,)
             ([("expr", pool[1])], []),                       # corpus F33: 0-d expression
             ([("duck", ())], []),                            # corpus F31 through compute_meta
             ([("coll", pool[2])], []), ([("coll", pool[3])], [("duck", (2, 3))])]
    for lab_arr in pool:
        plans.append(([("expr", lab_arr)], []))
        plans.append(([("coll", lab_arr)], []))
    for _ in range(6000 if chk.tier == "thorough" else 600):
        na, nk = rng.choice([1, 1, 2, 3, 4]), rng.choice([0, 0, 0, 1, 2])
        plans.append(([(rng.choice(["expr", "expr", "coll", "duck", "duck", "nonduck", "scalar"]), None) for _ in range(na)],
                      [(rng.choice(["expr", "coll", "duck", "scalar"]), None) for _ in range(nk)]))
    cases, kept = [], []
    for (pa, pk) in plans:
        args = [make_arg(k, i, f) for i, (k, f) in enumerate(pa)]
        kwargs = [make_arg(k, len(pa) + i, f) for i, (k, f) in enumerate(pk)]
        del REC[:]
        where = {"call": "compute_meta(rec_func, %s, %s%s)" % (
            "None", ", ".join(a[3] for a in args), "".join(f", k{i}={a[3]}" for i, a in enumerate(kwargs)))}
        with warnings.catch_warnings():
            warnings.simplefilter("ignore")
            compute_meta(rec_func, rng.choice([None, "float64"]), *[a[0] for a in args], **{f"k{i}": a[0] for i, a in enumerate(kwargs)})
        calls = list(REC)
        for a in args + kwargs:
            chk.count("compute_meta:arg:" + a[1][0] + ("" if a[1][1] is None else f":ndim{min(len(a[1][1]), 3)}"))
        chk.case(("cm", where["call"]), nontrivial=len(args) + len(kwargs) > 1 or args[0][1][1] not in (None, ()),
                 sample={**where, "func_called_with": calls} if len(cases) in (0, 1, 60) else None)
        ok = True
        # the property itself
        for a in args + kwargs:
            if a[2] is not None:
                ok &= oracle_requests(chk, a[2], "compute_meta", where)
        for (ca, ck) in calls:
            for (sh, size), a in zip(ca + ck, args + kwargs):
                if sh is not None and size > 0:
                    ok = False
                    cause = "zero-dim" if len(sh) == 0 else "nonempty-expr-meta" if a[1][0] == "MExprArg" else "other"
                    chk.violation(f"compute_meta called the user function on a non-empty array: shape {sh}, {size} element(s) ({a[3]})",
                                  {**where, "func_called_with": calls},
                                  signature={"class": "block-function-called", "phase": "compute_meta", "arg_ndim": len(sh), "cause": cause})
        per_arg = []
        for a in args + kwargs:
            r = "[]" if a[2] is None else requests_lit(a[2])
            per_arg.append(r)
        if any(r is None for r in per_arg):
            chk.tie_break("correspondence:compute_meta made a request the model cannot express", where)
            continue
        cases.append(ctuple(clist([a[1] for a in args], cmarg), clist([a[1] for a in kwargs], cmarg), "[" + "; ".join(per_arg) + "]",
                            clist(calls, lambda c: ctuple(clist([s for s, _ in c[0]], lambda s: copt(s, clist)),
                                                          clist([s for s, _ in c[1]], lambda s: copt(s, clist))))))
        kept.append((where, calls, [[e[:4] for e in a[2]] if a[2] is not None else None for a in args + kwargs]))
        if ok:
            chk.traces_validated += 1
    ty = "list marg * list marg * list (list (list pslice * Z)) * list (list (option (list Z)) * list (option (list Z)))"
    mism, _ = coq_eval_cases(
        HEADER, ty,
        f"Definition chk (c : {ty}) : bool := let '(args, kwargs, reqs, calls) := c in\n"
        "  list_eqb requests_eqb (map (map fst) reqs) (compute_meta_requests args kwargs)\n"
        "  && forallb (fun p => match fst p with MArrayLike sh => forallb (logged_request_ok sh) (snd p) | _ => match snd p with [] => true | _ => false end end)\n"
        "       (combine (args ++ kwargs) reqs)\n"
        "  && list_eqb call_eqb calls (compute_meta_calls args kwargs).",
        cases, chunk=200)
    for i in mism[:5]:
        chk.tie_break("correspondence:compute_meta (requests / argument shapes of the call differ from the model)",
                      {**kept[i][0], "impl_calls": kept[i][1], "impl_requests_per_arg": kept[i][2]})
    chk.traces_validated += len(cases) - len(mism)


def fam_infer_dtype(chk, da):
    """map_blocks WITHOUT dtype= / meta=: compute_meta(func, None, <Array>...) and apply_infer_dtype both call
    the user function while the expression is being built (the generated programs always pass dtype=)"""
    v = da.from_array(np.arange(6), chunks=3)
    for label, arr in [("1-d", v), ("2-d", da.from_array(np.arange(6).reshape(2, 3), chunks=2)), ("0-d", v.sum())]:
        del CALLS[:]
        arr.map_blocks(rec_block)
        chk.case(("map_blocks-no-dtype", label), nontrivial=True)
        chk.count("map_blocks-without-dtype")
        called = [c for c in CALLS if c[2] > 0]
        if called and arr.ndim > 0:
            chk.violation(f"map_blocks without dtype= called the user function on a non-empty block {called[0][1]} while building (dtype inference)",
                          {"program": f"<{label} array>.map_blocks(f)", "calls": list(CALLS)},
                          signature={"class": "block-function-called", "phase": "apply_infer_dtype", "block_shape": "(1,)*ndim"})
        elif called:
            chk.violation("map_blocks without dtype= called the user function on a 0-d (one element) array while building",
                          {"program": f"<{label} array>.map_blocks(f)", "calls": list(CALLS)},
                          signature={"class": "block-function-called", "phase": "compute_meta", "arg_ndim": 0, "cause": "zero-dim"})
        else:
            chk.traces_validated += 1
    del CALLS[:]


def fam_from_array_options(chk, da):
    """from_array over recording non-NumPy sources with every option that changes how blocks are fetched (inline_array, lock,
    asarray, getitem, fancy), then slices / rechunks; constructing, inspecting, optimizing AND building the task graph (without
    executing it) must not request a non-empty selection"""
    import random as _random
    import threading
    rng = _random.Random(f"C29-from-array-options-{chk.seed}")
    for it in range(600 if chk.tier == "thorough" else 90):
        log = []
        shape = (rng.choice([6, 10]), rng.choice([4, 9]))
        data = np.arange(int(np.prod(shape)), dtype="int64").reshape(shape)
        src = RecordingSource(data, log, 0)
        chunks = (rng.choice([shape[0], 3, 5]), rng.choice([shape[1], 2, 3]))
        kw = {}
        if rng.random() < 0.5:
            kw["inline_array"] = rng.random() < 0.7
        if rng.random() < 0.3:
            kw["lock"] = rng.choice([True, False]) if rng.random() < 0.7 else threading.Lock()
        if rng.random() < 0.3:
            kw["asarray"] = rng.choice([True, False])
        if rng.random() < 0.2:
            kw["fancy"] = rng.choice([True, False])
        post = rng.choice(["none", "slice", "slice-int", "rechunk", "elem"])
        try:
            with warnings.catch_warnings():
                warnings.simplefilter("ignore")
                x = da.from_array(src, chunks=chunks, **kw)
                if post == "slice":
                    x = x[1:, ::2]
                elif post == "slice-int":
                    x = x[2, 1:]
                elif post == "rechunk":
                    x = x.rechunk((2, 2))
                elif post == "elem":
                    x = x + 1
                inspect_everything(x)
                before_graph = [e for e in log if e[3] > 0]
                dict(x.__dask_graph__())                 # building the graph is not executing it
                dict(x.optimize().__dask_graph__())
        except Exception as e:  # noqa: BLE001
            chk.count("from-array-options:skipped:" + type(e).__name__)
            continue
        desc = {"program": f"from_array(<recording source {shape}>, chunks={chunks}, {', '.join(f'{k}={v!r}' for k, v in kw.items() if k != 'lock') + (', lock=...' if 'lock' in kw else '')}) then {post}"}
        chk.case(("from-array-options", shape, chunks, repr(sorted((k, repr(v)[:12]) for k, v in kw.items())), post), nontrivial=True, sample=desc if it < 2 else None)
        chk.count("from-array-options:" + "+".join(sorted(kw)) if kw else "from-array-options:default")
        touched = [e for e in log if e[3] > 0]
        if touched:
            chk.violation(f"a source was read while only {'inspecting' if before_graph else 'building the task graph'}: {touched[0][0]}{touched[0][2]} "
                          f"({touched[0][3]} elements), {len(touched)} request(s)", {**desc, "requests": [t[:4] for t in touched[:4]]},
                          signature={"class": "source-read", "how": touched[0][0], "phase": "inspection" if before_graph else "graph-build",
                                     "inline_array": bool(kw.get("inline_array"))})
        else:
            chk.traces_validated += 1


def fam_user_function_apis(chk, da):
    """every public entry point that takes a USER FUNCTION, called with all the metadata it could ask for (dtype / meta / shape /
    chunks / output_dtypes given explicitly): building and inspecting the result must not call the function on real elements"""
    seen = []

    def rec(kind):
        def f(*a, **k):
            sizes = [int(v.size) for v in list(a) + list(k.values()) if isinstance(v, np.ndarray)]
            seen.append((kind, sizes))
            for v in a:
                if isinstance(v, np.ndarray):
                    return v
            return np.zeros(())
        return f

    def red1(kind):
        def f(v):
            seen.append((kind, [int(np.size(v))]))
            return np.asarray(v).sum()
        return f

    x1 = da.from_array(np.arange(12.0), chunks=4)
    x2 = da.from_array(np.arange(12.0).reshape(3, 4), chunks=(2, 2))
    apis = [
        ("apply_along_axis(shape=(),dtype)", lambda: da.apply_along_axis(red1("aaa0"), 0, x2, dtype="f8", shape=())),
        ("apply_along_axis(shape=(),dtype,axis=1)", lambda: da.apply_along_axis(red1("aaa1"), 1, x2, dtype="f8", shape=())),
        ("apply_along_axis(shape=(2,),dtype)", lambda: da.apply_along_axis(lambda v: (seen.append(("aaa2", [int(v.size)])), v[:2])[1], 0, x2, dtype="f8", shape=(2,))),
        ("map_blocks(dtype)", lambda: x2.map_blocks(rec("mb"), dtype="f8")),
        ("map_blocks(dtype,meta)", lambda: x2.map_blocks(rec("mbm"), dtype="f8", meta=np.empty((0, 0)))),
        ("map_blocks(dtype,chunks,drop_axis)", lambda: x2.map_blocks(rec("mbc"), dtype="f8", chunks=(2,), drop_axis=1)),
        ("map_blocks(two arrays,dtype)", lambda: da.map_blocks(rec("mb2"), x2, x2 + 1, dtype="f8")),
        ("map_overlap(dtype)", lambda: da.map_overlap(rec("mo"), x2, depth=1, boundary="reflect", dtype="f8")),
        ("map_overlap(dtype,meta)", lambda: da.map_overlap(rec("mom"), x1, depth=1, boundary=0.0, dtype="f8", meta=np.empty((0,)))),
        ("blockwise(dtype)", lambda: da.blockwise(rec("bw"), "ij", x2, "ij", dtype="f8")),
        ("blockwise(dtype,meta)", lambda: da.blockwise(rec("bwm"), "ij", x2, "ij", dtype="f8", meta=np.empty((0, 0)))),
        ("blockwise(contract,dtype,concatenate)", lambda: da.blockwise(rec("bwc"), "i", x2, "ij", dtype="f8", concatenate=True)),
        ("reduction(dtype)", lambda: da.reduction(x2, rec("redc"), rec("reda"), dtype="f8")),
        ("reduction(dtype,meta,axis)", lambda: da.reduction(x2, rec("redc2"), rec("reda2"), axis=0, dtype="f8", meta=np.empty((0,)))),
        ("apply_gufunc(output_dtypes)", lambda: da.apply_gufunc(rec("gu"), "(i)->(i)", x2, output_dtypes="f8")),
        ("apply_gufunc(reduce,output_dtypes)", lambda: da.apply_gufunc(lambda v: (seen.append(("gur", [int(v.size)])), v.sum(-1))[1], "(i)->()", x2.rechunk((2, 4)), output_dtypes="f8")),
        ("fromfunction(dtype)", lambda: da.fromfunction(lambda i, j: (seen.append(("ff", [int(i.size)])), i + j)[1], shape=(4, 4), chunks=2, dtype="f8")),
        ("piecewise", lambda: da.piecewise(x1, [x1 < 3, x1 >= 3], [rec("pw1"), rec("pw2")])),
        ("cumreduction(dtype)", lambda: da.cumreduction(np.cumsum, rec("cumb"), 0, x1, axis=0, dtype="f8")),
        ("coarsen", lambda: da.coarsen(lambda v, axis=None: (seen.append(("co", [int(v.size)])), v.sum(axis=axis))[1], x1, {0: 2})),
    ]
    for label, mk in apis:
        del seen[:]
        try:
            with warnings.catch_warnings():
                warnings.simplefilter("ignore")
                y = mk()
                built = list(seen)
                inspect_everything(y)
        except Exception as e:  # noqa: BLE001
            chk.count("user-function-api:skipped:" + label.split("(")[0] + ":" + type(e).__name__)
            continue
        chk.case(("user-function-api", label), nontrivial=True)
        chk.count("user-function-api")
        bad = [c for c in seen if any(n > 0 for n in c[1])]
        if bad:
            chk.violation(f"{label}: the user function was called on non-empty data {bad[0]} while only building / inspecting",
                          {"api": label, "calls": bad[:4], "during_construction": [c for c in built if any(n > 0 for n in c[1])][:2]},
                          signature={"class": "block-function-called", "phase": "user-function-api", "api": label})
        else:
            chk.traces_validated += 1


def fam_meta_model(chk, da):
    fam_meta_from_array(chk, da)
    fam_from_array_meta(chk, da)
    fam_compute_meta(chk, da)
    fam_infer_dtype(chk, da)


def run(chk: Check):
    import dask_array as da
    chk.rule = ("generated programs whose sources are recording non-NumPy array-likes and which contain recording user block functions "
                "(map_blocks with and without block_info): constructing the expression and reading shape / chunks / dtype / name / keys / "
                "repr / len / numblocks / nbytes / transfer estimates / chunk_report / explain / simplify / optimize must not request a "
                "non-empty selection from any source nor call a block function on a non-empty block; afterwards compute() must read "
                "data (the recorder works) and equal NumPy; non-trivial = more than one node.  "
                "Model family (fam_meta_model): the real meta_from_array (recording / raising sources, ndim 0..4, zero- and one-length axes, "
                "4 dtypes, ndim= None/0/smaller/equal/larger), FromArray._meta through da.from_array + all accessors, and compute_meta "
                "(recording user function; expression, collection, duck-source, non-duck and scalar arguments, positional and keyword) "
                "are compared EXACTLY (requests with the size of what they returned, result shapes, argument shapes of the single call) "
                "with the Gallina model of coq/theories/MetaModel.v evaluated in Coq; independently every request that returned elements, "
                "every non-empty function argument and every expression node whose _meta has elements (ndim >= 1) is a violation")
    chk.assumptions = ["a source's __getitem__ returns an object distinct from the source (NumPy for the recorder): later indexing of the meta does not reach the source",
                       "the hypothesis of C29_compute_meta_calls_on_empty (expression metas have no elements unless 0-d) is checked on every node of the "
                       "real expressions of the pool; its known exceptions are finding C29-B",
                       "dtypes are not modelled (astype keeps shapes and makes no request)"]
    chk.run_proofs()
    fam_meta_model(chk, da)
    fam_user_function_apis(chk, da)
    fam_from_array_options(chk, da)
    rng = chk.rng
    # corpus: F31 0-d source
    log0 = []
    x0 = da.from_array(RecordingSource(np.array(5), log0, 0), chunks=())
    inspect_everything(x0)
    chk.case(("corpus", "0-d source"), nontrivial=True)
    if any(e[3] > 0 for e in log0):
        chk.violation("metadata access read data from a 0-d source: getitem() (1 element)", {"program": "from_array(<0-d array-like>)", "requests": log0[:3]},
                      signature={"class": "source-read", "how": "getitem", "request": "()", "phase": "construction"})
    n = 5000 if chk.tier == "thorough" else 300
    for it in range(n):
        log = []
        g = progs.Gen(rng, ops=progs.CORE_OPS + ["swv", "roll", "take", "repeat", "broadcast_to", "reshape"], sources=[])
        g.mb_funcs = ["double", "info"]
        p, v = g.program(rng.choice([1, 2, 3, 4, 5]))
        sources = g.sources
        wrapped = [(RecordingSource(d, log, k), c) for k, (d, c) in enumerate(sources)]
        # map_blocks with the recording functions
        progs.MB_FUNCS["double"], progs.MB_FUNCS["info"] = rec_block, rec_block_info
        del CALLS[:]
        desc = progs.describe(p, sources)
        try:
            with warnings.catch_warnings():
                warnings.simplefilter("ignore")
                x = progs.build(p, da, wrapped, memo={})
                built_log, built_calls = list(log), list(CALLS)
                inspect_everything(x)
        except Exception as e:  # noqa: BLE001
            chk.count("skipped:raises:" + err_sig(e)[:24])
            progs.MB_FUNCS["double"], progs.MB_FUNCS["info"] = progs.mb_double, progs.mb_info
            continue
        finally:
            pass
        chk.case(("prog", progs.show(p), repr([(s[0].shape, s[1]) for s in sources])), nontrivial=len(progs.all_nodes(p)) > 1,
                 sample=desc if it < 3 else None)
        for o in progs.ops_in(p):
            chk.count("op:" + o)
        touched = [e for e in log if e[3] > 0]
        called = [c for c in CALLS if c[2] > 0]
        if touched:
            chk.violation(f"metadata access read data from a source: {touched[0][0]}{touched[0][2]} ({touched[0][3]} elements), {len(touched)} request(s)",
                          {**desc, "requests": touched[:5], "during_construction": [e for e in built_log if e[3] > 0][:3]},
                          signature={"class": "source-read", "how": touched[0][0], "request": touched[0][2], "phase": "construction" if any(e[3] > 0 for e in built_log) else "inspection"})
        if called:
            chk.violation(f"a user block function was called on a non-empty block {called[0][1]} while building/inspecting",
                          {**desc, "calls": called[:5]},
                          signature={"class": "block-function-called", "phase": "construction" if any(c[2] > 0 for c in built_calls) else "inspection"})
        if not touched and not called:
            chk.traces_validated += 1
        # the recorder must see the reads once the graph is executed, and the values must be right
        n0 = len(log)
        try:
            with warnings.catch_warnings():
                warnings.simplefilter("ignore")
                got = x.compute(scheduler="sync")
            progs.MB_FUNCS["double"], progs.MB_FUNCS["info"] = progs.mb_double, progs.mb_info
            want = progs.eval_np(p, sources)
            if v.size and not any(e[3] > 0 for e in log[n0:]) and any(q[0] == "src" for q in progs.all_nodes(p)) and np.size(got) > 0:
                chk.count("recorder-saw-no-read-on-compute")
            ok, why = progs.values_equal(got, want)
            if not ok:
                chk.count("value-differs(C01)")
        except Exception:  # noqa: BLE001
            chk.count("compute-raises(C01)")
        finally:
            progs.MB_FUNCS["double"], progs.MB_FUNCS["info"] = progs.mb_double, progs.mb_info


def replay(path):
    print(open(path).read())
