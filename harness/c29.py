"""C29 — building and inspecting arrays never touches data."""
from __future__ import annotations

import re
import threading
import warnings

import numpy as np

import progs
from common import Check


class RecordingSource:
    """A non-NumPy array-like: logs every __getitem__ / __array__ with the size of what was requested."""

    def __init__(self, data, log, tag):
        self._data = data
        self.shape = data.shape
        self.dtype = data.dtype
        self.ndim = data.ndim
        self._log = log
        self._tag = tag

    def __getitem__(self, key):
        out = self._data[key]
        self._log.append(("getitem", self._tag, repr(key), int(np.size(out))))
        return out

    def __array__(self, dtype=None, copy=None):
        self._log.append(("__array__", self._tag, "", int(self._data.size)))
        return np.asarray(self._data, dtype=dtype)

    def __len__(self):
        return self.shape[0]


CALLS = []


def rec_block(b):
    CALLS.append(("block", tuple(b.shape), int(b.size)))
    return b + 1


def rec_block_info(b, block_info=None):
    CALLS.append(("block_info", tuple(b.shape), int(b.size)))
    return b * 2


def err_sig(e):
    return re.sub(r"[0-9(),\[\]'-]+", "#", f"{type(e).__name__}: {e}")[:36]


def inspect_everything(x):
    """all metadata accessors of the property + optimize()"""
    out = [x.shape, x.chunks, x.dtype, x.name, x.numblocks, x.ndim, x.size, x.nbytes, x.chunksize, repr(x), str(x)]
    try:
        out.append(len(x))
    except (TypeError, ValueError):
        pass
    out.append(x.__dask_keys__())
    e = x.expr
    for node in e.walk():
        tb = getattr(node, "transfer_bytes", None)
        out.append(tb)
    opt = x.optimize()
    out += [opt.chunks, opt.shape, opt.name]
    simp = x.simplify()
    out.append(simp.chunks)
    try:
        out.append(x._repr_html_())
    except Exception:  # noqa: BLE001
        pass
    import dask_array as da
    out.append(da.chunk_report(x))
    out.append(repr(da.explain(x)))
    return out


def run(chk: Check):
    import dask_array as da
    chk.rule = ("generated programs whose sources are recording non-NumPy array-likes and which contain recording user block functions "
                "(map_blocks with and without block_info): constructing the expression and reading shape / chunks / dtype / name / keys / "
                "repr / len / numblocks / nbytes / transfer estimates / chunk_report / explain / simplify / optimize must not request a "
                "non-empty selection from any source nor call a block function on a non-empty block; afterwards compute() must read "
                "data (the recorder works) and equal NumPy; non-trivial = more than one node")
    chk.run_proofs()
    rng = chk.rng
    # corpus: F31 0-d source
    log0 = []
    x0 = da.from_array(RecordingSource(np.array(5), log0, 0), chunks=())
    inspect_everything(x0)
    chk.case(("corpus", "0-d source"), nontrivial=True)
    if any(e[3] > 0 for e in log0):
        chk.violation("metadata access read data from a 0-d source: getitem() (1 element)", {"program": "from_array(<0-d array-like>)", "requests": log0[:3]},
                      signature={"class": "source-read", "how": "getitem", "request": "()", "phase": "construction"})
    n = 5000 if chk.tier == "thorough" else 300
    for it in range(n):
        log = []
        g = progs.Gen(rng, ops=progs.CORE_OPS + ["swv", "roll", "take", "repeat", "broadcast_to", "reshape"], sources=[])
        g.mb_funcs = ["double", "info"]
        p, v = g.program(rng.choice([1, 2, 3, 4, 5]))
        sources = g.sources
        wrapped = [(RecordingSource(d, log, k), c) for k, (d, c) in enumerate(sources)]
        # map_blocks with the recording functions
        progs.MB_FUNCS["double"], progs.MB_FUNCS["info"] = rec_block, rec_block_info
        del CALLS[:]
        desc = progs.describe(p, sources)
        try:
            with warnings.catch_warnings():
                warnings.simplefilter("ignore")
                x = progs.build(p, da, wrapped, memo={})
                built_log, built_calls = list(log), list(CALLS)
                inspect_everything(x)
        except Exception as e:  # noqa: BLE001
            chk.count("skipped:raises:" + err_sig(e)[:24])
            progs.MB_FUNCS["double"], progs.MB_FUNCS["info"] = progs.mb_double, progs.mb_info
            continue
        finally:
            pass
        chk.case(("prog", progs.show(p), repr([(s[0].shape, s[1]) for s in sources])), nontrivial=len(progs.all_nodes(p)) > 1,
                 sample=desc if it < 3 else None)
        for o in progs.ops_in(p):
            chk.count("op:" + o)
        touched = [e for e in log if e[3] > 0]
        called = [c for c in CALLS if c[2] > 0]
        if touched:
            chk.violation(f"metadata access read data from a source: {touched[0][0]}{touched[0][2]} ({touched[0][3]} elements), {len(touched)} request(s)",
                          {**desc, "requests": touched[:5], "during_construction": [e for e in built_log if e[3] > 0][:3]},
                          signature={"class": "source-read", "how": touched[0][0], "request": touched[0][2], "phase": "construction" if any(e[3] > 0 for e in built_log) else "inspection"})
        if called:
            chk.violation(f"a user block function was called on a non-empty block {called[0][1]} while building/inspecting",
                          {**desc, "calls": called[:5]},
                          signature={"class": "block-function-called", "phase": "construction" if any(c[2] > 0 for c in built_calls) else "inspection"})
        if not touched and not called:
            chk.traces_validated += 1
        # the recorder must see the reads once the graph is executed, and the values must be right
        n0 = len(log)
        try:
            with warnings.catch_warnings():
                warnings.simplefilter("ignore")
                got = x.compute(scheduler="sync")
            progs.MB_FUNCS["double"], progs.MB_FUNCS["info"] = progs.mb_double, progs.mb_info
            want = progs.eval_np(p, sources)
            if v.size and not any(e[3] > 0 for e in log[n0:]) and any(q[0] == "src" for q in progs.all_nodes(p)) and np.size(got) > 0:
                chk.count("recorder-saw-no-read-on-compute")
            ok, why = progs.values_equal(got, want)
            if not ok:
                chk.count("value-differs(C01)")
        except Exception:  # noqa: BLE001
            chk.count("compute-raises(C01)")
        finally:
            progs.MB_FUNCS["double"], progs.MB_FUNCS["info"] = progs.mb_double, progs.mb_info


def replay(path):
    print(open(path).read())
