"""C06 — equal names denote equal arrays (nodes and graph keys, across programs in one process)."""
from __future__ import annotations

import hashlib
import warnings

import dask.local
import numpy as np

import exprs
import progs
from common import Check


def fp_value(v):
    v = np.asarray(v)
    if v.dtype == object:
        return ("obj", repr(v.tolist())[:200])
    return (str(v.dtype), tuple(v.shape), hashlib.sha1(np.ascontiguousarray(v).tobytes()).hexdigest()[:16])


def node_meta(n):
    try:
        return (repr(tuple(n.shape)), str(n.dtype), repr(n.chunks))
    except Exception as e:  # noqa: BLE001
        return ("<meta raises>", type(e).__name__)


def run(chk: Check):
    import dask_array as da
    from dask_array._expr import ArrayExpr
    chk.rule = ("programs built in ONE process over a shared pool of sources (same data with different chunkings, different data with "
                "the same shape and chunking, pinned/hand-built names: FromArray regions and rechunks, Rechunk content hashes, fused groups, "
                "random arrays); every expression node of the raw, simplified, lowered and fused forms is registered under its _name with "
                "(class, shape, dtype, chunks); every graph key of every program is executed and registered with a hash of its value; a "
                "name or key seen with two different fingerprints is a violation; non-trivial = name/key seen more than once")
    chk.run_proofs()
    names = {}      # _name -> (meta, class, program)
    keys = {}       # graph key -> (value fingerprint, program)
    seen_twice = 0
    shared = []
    rng = chk.rng
    # a pool where accidental name collisions would be possible
    base = np.arange(24, dtype="int64")
    for data in (base, base + 1, base[::-1].copy(), base.reshape(4, 6), base.reshape(4, 6) + 1, base.reshape(6, 4), base.reshape(2, 3, 4)):
        for _ in range(2):
            shared.append((data, tuple(progs.rand_chunks_for(rng, n) for n in data.shape)))
    n = 8000 if chk.tier == "thorough" else 1200
    for it in range(n):
        g = progs.Gen(rng, ops=progs.CORE_OPS + ["take", "roll"], sources=shared)
        prog, want = g.program(rng.choice([1, 2, 3, 4]))
        if len(shared) > 60:
            del shared[14:30]
        pshow = progs.show(prog)
        try:
            with warnings.catch_warnings():
                warnings.simplefilter("ignore")
                arr = progs.build(prog, da, shared, memo={})
                forms = exprs.phases(arr.expr)
        except Exception:  # noqa: BLE001
            chk.count("skipped:raises")
            continue
        chk.case(("prog", pshow, it), nontrivial=True, sample={"program": pshow} if it < 4 else None)
        for fname, e in forms.items():
            for node in e.walk():
                if not isinstance(node, ArrayExpr):
                    continue
                meta = (type(node).__name__,) + node_meta(node)
                chk.count("nodes")
                old = names.get(node._name)
                if old is None:
                    names[node._name] = (meta, pshow)
                else:
                    seen_twice += 1
                    if old[0] != meta and "<meta raises>" not in (old[0][1], meta[1]):
                        chk.violation(f"two nodes named {node._name} differ: {old[0]} vs {meta}",
                                      {"name": node._name, "first": {"meta": old[0], "program": old[1]}, "second": {"meta": meta, "program": pshow}},
                                      signature={"class": "node-name-collision", "cls": meta[0]})
        # graph keys -> values
        try:
            with warnings.catch_warnings():
                warnings.simplefilter("ignore")
                dsk = dict(arr.__dask_graph__())
                if len(dsk) > 400:
                    continue
                ks = list(dsk)
                vals = dask.local.get_sync(dsk, ks)
        except Exception:  # noqa: BLE001
            chk.count("skipped:graph-raises")
            continue
        for k, v in zip(ks, vals):
            try:
                f = fp_value(v)
            except Exception:  # noqa: BLE001
                continue
            chk.count("keys")
            old = keys.get(k)
            if old is None:
                keys[k] = (f, pshow)
            else:
                seen_twice += 1
                if old[0] != f:
                    chk.violation(f"graph key {k!r} holds different values in two graphs built in this process",
                                  {"key": repr(k), "first": {"value": old[0], "program": old[1]}, "second": {"value": f, "program": pshow}},
                                  signature={"class": "key-value-collision", "prefix": str(k[0] if isinstance(k, tuple) else k).split("-")[0]})
        chk.traces_validated += 1
    # random arrays: different seeds / sizes must not share a name, equal ones must
    for seed in range(20 if chk.tier == "quick" else 200):
        r1 = da.random.default_rng(seed).random((6,), chunks=3)
        r2 = da.random.default_rng(seed).random((6,), chunks=3)
        r3 = da.random.default_rng(seed + 1).random((6,), chunks=3)
        r4 = da.random.default_rng(seed).random((6,), chunks=2)
        chk.count("random")
        chk.case(("random", seed), nontrivial=True)
        v1, v2, v3, v4 = (r.compute(scheduler="sync") for r in (r1, r2, r3, r4))
        for a, b, va, vb in ((r1, r2, v1, v2), (r1, r3, v1, v3), (r1, r4, v1, v4)):
            if a.name == b.name and not np.array_equal(va, vb):
                chk.violation("two random arrays share a name but hold different values", {"seed": seed, "a": a.name},
                              signature={"class": "node-name-collision", "cls": "Random"})
    chk.extra["distinct_names"] = len(names)
    chk.extra["distinct_keys"] = len(keys)
    chk.extra["names_or_keys_seen_more_than_once"] = seen_twice
    _ = hashlib


def replay(path):
    print(open(path).read())
