"""C06 — equal names denote equal arrays (nodes and graph keys, across programs in one process)."""
from __future__ import annotations

import hashlib
import warnings

import dask.local
import numpy as np

import exprs
import names as nm
import progs
from common import Check, coq_eval_cases


def fp_value(v):
    v = np.asarray(v)
    if v.dtype == object:
        return ("obj", repr(v.tolist())[:200])
    return (str(v.dtype), tuple(v.shape), hashlib.sha1(np.ascontiguousarray(v).tobytes()).hexdigest()[:16])


def node_meta(n):
    try:
        return (repr(tuple(n.shape)), str(n.dtype), repr(n.chunks))
    except Exception as e:  # noqa: BLE001
        return ("<meta raises>", type(e).__name__)


def run(chk: Check):
    with nm.recording():
        _run(chk)


class ModelTie:
    """Model-correspondence family: reify real nodes into coq/theories/Names.v and compare, inside Coq, the
    equality pattern of the model's names / tokens with the one of the real `_name` / `deterministic_token`
    strings; plus the Python-side content fingerprints (names <-> fingerprints, both ways)."""

    def __init__(self, chk):
        self.chk = chk
        self.R = nm.Reifier()
        self.case = nm.Case(self.R)
        self.cases, self.info = [], []
        self.programs_in_case = 0
        self.by_name = {}      # _name -> (content fingerprint, program)
        self.by_full = {}      # full fingerprint -> (_name, program)

    # ---- Python-side fingerprints
    def fingerprint(self, node, pshow):
        chk = self.chk
        try:
            full, content = nm.fingerprints(node)
        except Exception:  # noqa: BLE001
            chk.count("fingerprint:raises")
            return
        chk.count("fingerprints")
        old = self.by_name.get(node._name)
        if old is None:
            self.by_name[node._name] = (content, pshow)
        elif old[0] != content:
            kids = [d for d in node.dependencies()]
            via = sorted({type(k).__name__ for k in kids})
            chk.violation(f"two nodes named {node._name} have different content fingerprints",
                          {"name": node._name, "first": {"fingerprint": repr(old[0])[:600], "program": old[1]},
                           "second": {"fingerprint": repr(content)[:600], "program": pshow}},
                          signature={"class": "name-collision-fingerprint", "cls": type(node).__name__,
                                     "via": "Random" if any("Random" in v for v in via) else "other"})
        old = self.by_full.get(full)
        if old is None:
            self.by_full[full] = (node._name, pshow)
        elif old[0] != node._name:
            chk.violation(f"equal class and operands but two names ({old[0]} / {node._name}): de-duplication misses",
                          {"first": {"name": old[0], "program": old[1]}, "second": {"name": node._name, "program": pshow}},
                          signature={"class": "dedup-miss", "cls": type(node).__name__})

    # ---- Coq model
    def add(self, roots, pshow, raw=None, lowered=None):
        """register and reify every node under `roots`; RootAlias `lowered` is tied to its `raw` root"""
        chk, R = self.chk, self.R
        from dask_array._expr import ArrayExpr, RootAlias
        for r in roots:
            for node in r.walk():
                if isinstance(node, ArrayExpr):
                    R.register(node)
        if lowered is not None and isinstance(lowered, RootAlias) and raw is not None:
            R.raw_of[id(lowered)] = raw
        for r in roots:
            for node in r.walk():
                if not isinstance(node, ArrayExpr):
                    continue
                try:
                    self.case.node(node)
                    chk.count("model:" + type(node).__name__)
                except nm.Unmodelled as e:
                    chk.count("unmodelled:" + str(e)[:60])
                except nm.StructureChanged as e:
                    chk.tie_break("names-model-structure", {"node": type(node).__name__, "why": str(e)})
                except Exception as e:  # noqa: BLE001
                    chk.count("unmodelled:raises:" + type(e).__name__)
        self.programs_in_case += 1
        if self.programs_in_case >= 3 or len(self.case.rows) > 60:
            self.flush(pshow)

    def flush(self, pshow=""):
        if self.case.rows:
            self.cases.append(self.case.literal())
            self.info.append({"last_program": pshow, "nodes": len(self.case.rows), "classes": sorted(set(self.case.classes))})
        self.case = nm.Case(self.R)
        self.programs_in_case = 0

    def finish(self):
        chk = self.chk
        self.flush()
        bad, _ = coq_eval_cases(nm.HEADER, nm.CASE_TYPE, nm.CHECK_DEF, self.cases, chunk=25)
        for i in bad:
            chk.tie_break("names-model-mismatch", {"case": self.info[i], "literal": self.cases[i][:3000]})
        chk.traces_validated += len(self.cases) - len(bad)
        chk.extra["model_cases"] = len(self.cases)
        chk.extra["model_nodes"] = sum(i["nodes"] for i in self.info)


def probe_pairs(chk, tie, da):
    """targeted families: (1) draws from ONE rng object; (2) nodes that differ only in an operand the
    tokenizer omits; (3) exact-named FromArray regions / rechunks; all go through the fingerprints and the
    Coq model as well"""
    import dask
    from dask_array._expr import ArrayExpr

    def both(label, a, b, must_differ_when_values_differ=True):
        chk.count("probe:" + label)
        chk.case(("probe", label), nontrivial=True)
        for x in (a, b):
            forms = {"raw": x.expr}
            try:
                with warnings.catch_warnings():
                    warnings.simplefilter("ignore")
                    forms.update(exprs.phases(x.expr))
                    low = x._lowered_expr
            except Exception:  # noqa: BLE001
                low = None
            for e in forms.values():
                for node in e.walk():
                    if isinstance(node, ArrayExpr):
                        tie.fingerprint(node, label)
            tie.add(list(forms.values()) + ([low] if low is not None else []), label, raw=x.expr, lowered=low)
        if a.name == b.name:
            with warnings.catch_warnings():
                warnings.simplefilter("ignore")
                va, vb = a.compute(scheduler="sync"), b.compute(scheduler="sync")
            if not (np.array_equal(va, vb, equal_nan=True) and a.chunks == b.chunks and a.dtype == b.dtype):
                return True
        return False

    # (1) shared rng: the minimal reproducer comes first
    for kind in ("Generator.random", "RandomState.random_sample", "module.random", "Generator.normal"):
        if kind.startswith("Generator"):
            rng = da.random.default_rng(7)
            mk = (lambda: rng.random((6,), chunks=3)) if kind.endswith("random") else (lambda: rng.normal(size=(6,), chunks=3))
        elif kind.startswith("RandomState"):
            rs = da.random.RandomState(7)
            mk = lambda: rs.random_sample((6,), chunks=3)  # noqa: E731
        else:
            mk = lambda: da.random.random((6,), chunks=3)  # noqa: E731
        r1, r2 = mk(), mk()
        a, b = r1 + 1, r2 + 1
        both("shared-rng:" + kind, a, b)
        tie.add([r1.expr, r2.expr], "shared-rng:" + kind)      # two nodes, two names, two tokens (was: ONE token)
        with warnings.catch_warnings():
            warnings.simplefilter("ignore")
            v2, vb = r2.compute(scheduler="sync"), b.compute(scheduler="sync")
            c1, c2 = dask.compute(r1, r2, scheduler="sync")
        # REGRESSION probe for finding C06-A (fixed): the parents must be told apart, (r2 + 1) must be r2 + 1 and
        # dask.compute(r1, r2) must return two different arrays
        if (a.name == b.name or r1.expr.deterministic_token == r2.expr.deterministic_token or r1.name == r2.name
                or not np.allclose(vb, v2 + 1) or np.array_equal(c1, c2) or not np.array_equal(c2, v2)):
            chk.violation(f"{kind}: two draws r1, r2 from one rng object: (r1 + 1).name == (r2 + 1).name although r1.name != r2.name "
                          "and the values differ (the parents hash the rng operand's CURRENT state, not the draw)",
                          {"kind": kind, "r1": r1.name, "r2": r2.name, "parent": a.name,
                           "repro": "rng = da.random.default_rng(0); r1 = rng.random(6, chunks=3); r2 = rng.random(6, chunks=3); "
                                    "(r1 + 1).name == (r2 + 1).name  # True; dask.compute(r1, r2) returns r1 twice"},
                          signature={"class": "node-name-collision", "cls": "Elemwise", "via": "shared-rng"})
        # separately seeded generators with the same seed are the same array, different seeds are not
        s1, s2 = da.random.default_rng(3).random((6,), chunks=3), da.random.default_rng(3).random((6,), chunks=3)
        if both("same-seed", s1 + 1, s2 + 1):
            chk.violation("equal seeds: equal names but different arrays", {}, signature={"class": "node-name-collision", "cls": "Random"})
    # (4) "auto" chunks are normalised lazily from array.chunk-size, which the name does not depend on
    import gc
    big = np.arange(4000, dtype="float64")
    for label, mk in (("from_array", lambda: da.from_array(big, chunks="auto")), ("arange", lambda: da.arange(4000, chunks="auto"))):
        chk.count("probe:auto-chunks:" + label)
        chk.case(("probe", "auto-chunks", label), nontrivial=True)
        with dask.config.set({"array.chunk-size": "8KiB"}):
            a = mk()
            first = (a.name, a.chunks, {k: np.asarray(v).shape for k, v in dict(a.__dask_graph__()).items() if isinstance(v, np.ndarray)})
        del a
        gc.collect()
        with dask.config.set({"array.chunk-size": "16KiB"}):
            b = mk()
            second = (b.name, b.chunks)
        if first[0] == second[0] and first[1] != second[1]:
            chk.violation(f"{label}(chunks='auto'): the name does not depend on array.chunk-size but the chunks do: one name, two "
                          f"block structures in one process ({first[1]} then {second[1]})",
                          {"name": first[0], "first_chunks": first[1], "second_chunks": second[1],
                           "repro": "with dask.config.set({'array.chunk-size': '8KiB'}): a = da.from_array(np.arange(4000.), chunks='auto'); n, c = a.name, a.chunks; "
                                    "del a; with dask.config.set({'array.chunk-size': '16KiB'}): b = da.from_array(np.arange(4000.), chunks='auto'); "
                                    "assert b.name == n and b.chunks != c"},
                          signature={"class": "node-name-collision", "cls": type(b.expr).__name__, "via": "config-auto-chunks"})
        del b
        gc.collect()
    x = da.from_array(np.arange(12.0), chunks=4)

    def f(b, k=1):
        return b * k

    # (2) omitted operands: meta / name / token
    pairs = [
        ("map_blocks:meta", lambda: x.map_blocks(f, dtype="f8", meta=np.empty((0,))), lambda: x.map_blocks(f, dtype="f8", meta=np.ma.empty((0,)))),
        ("map_blocks:name", lambda: x.map_blocks(f, dtype="f8", name="aa").sum(), lambda: x.map_blocks(f, dtype="f8", name="bb").sum()),
        ("map_blocks:kwargs", lambda: x.map_blocks(f, k=2, dtype="f8"), lambda: x.map_blocks(f, k=3, dtype="f8")),
        ("reduction:meta", lambda: da.reduction(x, np.sum, np.sum, dtype="f8", meta=np.empty(())), lambda: da.reduction(x, np.sum, np.sum, dtype="f8", meta=np.ma.empty(()))),
        ("reduction:name", lambda: da.reduction(x, np.sum, np.sum, dtype="f8", name="aa") + 1, lambda: da.reduction(x, np.sum, np.sum, dtype="f8", name="bb") + 1),
        ("reduction:dtype", lambda: x.sum(dtype="f4"), lambda: x.sum(dtype="f8")),
        ("reduction:keepdims", lambda: x.sum(keepdims=True), lambda: x.sum()),
        ("reduction:split_every", lambda: x.sum(split_every=2), lambda: x.sum(split_every=3)),
        # (3) exact names
        ("region", lambda: x[2:9] + 1, lambda: x[2:10] + 1),
        ("region:int", lambda: da.from_array(np.arange(12.0).reshape(3, 4), chunks=2)[1] + 1, lambda: da.from_array(np.arange(12.0).reshape(3, 4), chunks=2)[2] + 1),
        ("region:nested", lambda: x[2:][1:5] + 1, lambda: x[3:7] + 1),
        ("io-rechunk", lambda: x.rechunk(3) + 1, lambda: x.rechunk(6) + 1),
        ("rechunk:method", lambda: (x + 1).rechunk(3), lambda: (x + 1).rechunk(3, method="tasks")),
        ("rechunk:spelling", lambda: (x + 1).rechunk(3), lambda: (x + 1).rechunk((3,))),
    ]
    for label, m1, m2 in pairs:
        with warnings.catch_warnings():
            warnings.simplefilter("ignore")
            a, b = m1(), m2()
        if both(label, a, b):
            chk.violation(f"{label}: equal names but different arrays", {"name": a.name},
                          signature={"class": "node-name-collision", "cls": type(a.expr).__name__, "via": label})


def near_miss_families(chk, tie, da):
    """families of API calls that differ in ONE ingredient (chunk boundaries with the same block count, an index label, an
    axis, a keyword ...), all alive together: whenever two members share a name they must have the same shape, chunks,
    dtype and values.  Every member also goes through the fingerprints and the Coq name model."""
    import itertools
    import operator
    from dask_array._expr import ArrayExpr
    xn = np.arange(16.0).reshape(4, 4)
    vn = np.array([10.0, 20.0, 30.0, 40.0])
    x = da.from_array(xn, chunks=(2, 2))
    x13 = da.from_array(xn, chunks=((1, 3), (2, 2)))
    v = da.from_array(vn, chunks=2)
    w = da.from_array(np.arange(12.0), chunks=4)

    def add_col(block, vec):
        return block + vec[:, None]

    def sc(b, k=1.0):
        return b * k

    fams = {}
    for seed in (3, 4):
        for ctor_name, ctor in (("default_rng", da.random.default_rng), ("RandomState", da.random.RandomState)):
            for dist, kw in (("random" if ctor_name == "default_rng" else "random_sample", {}), ("normal", {"loc": 1.0}), ("normal", {"loc": 2.0}),
                             ("uniform", {})):
                fams.setdefault(f"random:{ctor_name}:{dist}", []).extend(
                    (f"seed={seed},{kw},chunks={c}", (lambda ctor=ctor, seed=seed, dist=dist, kw=kw, c=c: getattr(ctor(seed), dist)(size=(10,), chunks=c, **kw)))
                    for c in (((5, 5),), ((6, 4),), ((4, 6),), ((10,),), ((3, 3, 4),), ((4, 3, 3),)))
            fams.setdefault(f"random2d:{ctor_name}", []).extend(
                (f"seed={seed},chunks={c}", (lambda ctor=ctor, seed=seed, c=c: ctor(seed).normal(size=(4, 6), chunks=c)))
                for c in (((2, 2), (3, 3)), ((1, 3), (3, 3)), ((2, 2), (2, 4)), ((4,), (1, 2, 3)), ((4,), (3, 2, 1)), ((2, 2), (6,))))
    fams["blockwise:index-labels"] = [
        ("x:ij,v:i", lambda: da.blockwise(add_col, "ij", x, "ij", v, "i", dtype="f8")),
        ("x:ij,v:j", lambda: da.blockwise(add_col, "ij", x, "ij", v, "j", dtype="f8")),
        ("x:ij,x:ij", lambda: da.blockwise(operator.add, "ij", x, "ij", x, "ij", dtype="f8")),
        ("x:ij,x:ji", lambda: da.blockwise(operator.add, "ij", x, "ij", x, "ji", dtype="f8")),
        ("out:ji", lambda: da.blockwise(operator.add, "ji", x, "ij", x, "ij", dtype="f8")),
        ("x13:ij,x13:ij", lambda: da.blockwise(operator.add, "ij", x13, "ij", x13, "ij", dtype="f8")),
        ("dtype=f4", lambda: da.blockwise(operator.add, "ij", x, "ij", x, "ij", dtype="f4")),
        ("concatenate", lambda: da.blockwise(lambda a: a.sum(axis=1), "i", x, "ij", dtype="f8", concatenate=True)),
        ("concatenate:axis0", lambda: da.blockwise(lambda a: a.sum(axis=0), "j", x, "ij", dtype="f8", concatenate=True)),
        ("new_axes:2", lambda: da.blockwise(lambda a: np.stack([a, a], -1), "ijk", x, "ij", dtype="f8", new_axes={"k": 2})),
        ("new_axes:2b", lambda: da.blockwise(lambda a: np.stack([a, a], -1), "ijk", x, "ij", dtype="f8", new_axes={"k": (1, 1)})),
        ("adjust_chunks:a", lambda: da.blockwise(lambda a: a[:1], "ij", x, "ij", dtype="f8", adjust_chunks={"i": 1})),
        ("adjust_chunks:b", lambda: da.blockwise(lambda a: a[:, :1], "ij", x, "ij", dtype="f8", adjust_chunks={"j": 1})),
        ("kw:1", lambda: da.blockwise(sc, "ij", x, "ij", dtype="f8", k=1.0)),
        ("kw:2", lambda: da.blockwise(sc, "ij", x, "ij", dtype="f8", k=2.0)),
        ("lit:2", lambda: da.blockwise(sc, "ij", x, "ij", 2.0, None, dtype="f8")),
        ("lit:3", lambda: da.blockwise(sc, "ij", x, "ij", 3.0, None, dtype="f8")),
    ]
    fams["reductions"] = [(f"{fn},axis={ax},keepdims={kd},se={se}", (lambda fn=fn, ax=ax, kd=kd, se=se: getattr(da, fn)(x13, axis=ax, keepdims=kd, split_every=se)))
                          for fn in ("sum", "max", "mean", "argmax") for ax in (0, 1) for kd in (False, True) for se in (None, 2)
                          if not (fn == "argmax" and kd)]
    fams["reductions"] += [(f"sum,axis={ax}", (lambda ax=ax: x.sum(axis=ax))) for ax in (None, (0, 1), (1,), (0,))]
    fams["cumulative"] = [(f"{fn},axis={ax},{m}", (lambda fn=fn, ax=ax, m=m: getattr(da, fn)(x13, axis=ax, method=m)))
                          for fn in ("cumsum", "cumprod") for ax in (0, 1) for m in ("sequential", "blelloch")]
    fams["rechunk"] = [(f"{src_name}->{c}", (lambda src=src, c=c: (src + 1).rechunk(c)))
                       for src_name, src in (("x", x), ("x13", x13)) for c in ((2, 2), ((1, 3), (2, 2)), ((3, 1), (2, 2)), (4, 1), (1, 4), ((2, 2), (1, 3)))]
    fams["from_array"] = [(f"chunks={c},off={off}", (lambda c=c, off=off: da.from_array(xn + off, chunks=c)))
                          for off in (0.0, 1.0) for c in ((2, 2), ((1, 3), (2, 2)), ((3, 1), (2, 2)), ((2, 2), (3, 1)), (4, 4))]
    fams["from_array:regions"] = [(f"[{a}:{b}]", (lambda a=a, b=b: w[a:b] + 1)) for a, b in itertools.product((0, 1, 4), (8, 9, 12))]
    fams["from_array:regions"] += [(f"[{a}:{b}:2]", (lambda a=a, b=b: w[a:b:2] + 1)) for a, b in ((0, 8), (1, 9), (0, 12))]
    fams["slicing"] = [(repr(ix), (lambda ix=ix: (x13 + 1)[ix])) for ix in
                       ((slice(0, 2),), (slice(1, 3),), (slice(None), slice(0, 2)), (0,), (1,), (slice(None), 0), (slice(None, None, 2),),
                        ([0, 2],), ([2, 0],), (slice(None), [0, 2]), (None,), (slice(None), None))]
    fams["transpose-like"] = [("T", lambda: (x13 + 1).T), ("transpose(0,1)", lambda: (x13 + 1).transpose(0, 1)), ("swapaxes", lambda: da.swapaxes(x13 + 1, 0, 1)),
                              ("flip0", lambda: da.flip(x13 + 1, 0)), ("flip1", lambda: da.flip(x13 + 1, 1)),
                              ("roll0", lambda: da.roll(x13 + 1, 1, 0)), ("roll1", lambda: da.roll(x13 + 1, 1, 1)), ("roll2", lambda: da.roll(x13 + 1, 2, 0))]
    fams["shape-ops"] = [("reshape(16)", lambda: (x + 1).reshape(16)), ("reshape(2,8)", lambda: (x + 1).reshape(2, 8)), ("reshape(8,2)", lambda: (x + 1).reshape(8, 2)),
                         ("ravel", lambda: (x + 1).ravel()), ("bc(2,4,4)", lambda: da.broadcast_to(x + 1, (2, 4, 4))), ("bc(3,4,4)", lambda: da.broadcast_to(x + 1, (3, 4, 4))),
                         ("repeat0", lambda: da.repeat(x + 1, 2, axis=0)), ("repeat1", lambda: da.repeat(x + 1, 2, axis=1)),
                         ("tile", lambda: da.tile(x + 1, 2)), ("expand0", lambda: da.expand_dims(x + 1, 0)), ("expand2", lambda: da.expand_dims(x + 1, 2))]
    fams["concat-stack"] = [(f"{fn}{ax}{order}", (lambda fn=fn, ax=ax, order=order: getattr(da, fn)([x, x13][::order], axis=ax)))
                            for fn in ("concatenate", "stack") for ax in (0, 1) for order in (1, -1)]
    fams["overlap"] = [(f"depth={d},boundary={b}", (lambda d=d, b=b: da.map_overlap(sc, x13, depth=d, boundary=b, dtype="f8")))
                       for d in (1, {0: 1, 1: 0}, {0: 0, 1: 1}) for b in ("reflect", "nearest", "none", 0.0)]
    fams["creation"] = [("ones(6,c3)", lambda: da.ones((6,), chunks=3)), ("ones(6,c(2,4))", lambda: da.ones((6,), chunks=((2, 4),))), ("ones(6,c(4,2))", lambda: da.ones((6,), chunks=((4, 2),))),
                        ("zeros(6,c3)", lambda: da.zeros((6,), chunks=3)), ("full2", lambda: da.full((6,), 2.0, chunks=3)), ("full3", lambda: da.full((6,), 3.0, chunks=3)),
                        ("ones-i8", lambda: da.ones((6,), chunks=3, dtype="i8")),
                        ("arange6", lambda: da.arange(6, chunks=3)), ("arange(1,7)", lambda: da.arange(1, 7, chunks=3)), ("arange6c(2,4)", lambda: da.arange(6, chunks=((2, 4),))),
                        ("arange6c(4,2)", lambda: da.arange(6, chunks=((4, 2),))), ("arange(0,12,2)", lambda: da.arange(0, 12, 2, chunks=3)),
                        ("linspace(0,1,6)", lambda: da.linspace(0, 1, 6, chunks=3)), ("linspace(0,2,6)", lambda: da.linspace(0, 2, 6, chunks=3)),
                        ("linspace(0,1,6,noend)", lambda: da.linspace(0, 1, 6, chunks=3, endpoint=False)),
                        ("eye4", lambda: da.eye(4, chunks=2)), ("eye4k1", lambda: da.eye(4, chunks=2, k=1)), ("eye4x6", lambda: da.eye(4, chunks=2, M=6)),
                        ("tri4", lambda: da.tri(4, chunks=2)), ("tri4k1", lambda: da.tri(4, k=1, chunks=2))]
    fams["elemwise"] = [("x+v", lambda: x + v), ("v+x", lambda: v + x), ("x-v", lambda: x - v), ("x+v[:,None]", lambda: x + v[:, None]), ("x13+v", lambda: x13 + v),
                        ("where", lambda: da.where(x > 3, x, v)), ("where-swapped", lambda: da.where(x > 3, v, x)), ("clip(0,5)", lambda: da.clip(x, 0, 5)), ("clip(0,6)", lambda: da.clip(x, 0, 6)),
                        ("astype-f4", lambda: x.astype("f4")), ("astype-i8", lambda: x.astype("i8")), ("add-out-dtype", lambda: da.add(x, v, dtype="f4"))]
    fams["map_blocks"] = [("k=1", lambda: x.map_blocks(sc, k=1.0, dtype="f8")), ("k=2", lambda: x.map_blocks(sc, k=2.0, dtype="f8")), ("x13,k=1", lambda: x13.map_blocks(sc, k=1.0, dtype="f8")),
                          ("drop0", lambda: x.map_blocks(lambda b: b.sum(axis=0), drop_axis=0, dtype="f8")), ("drop1", lambda: x.map_blocks(lambda b: b.sum(axis=1), drop_axis=1, dtype="f8")),
                          ("new0", lambda: x.map_blocks(lambda b: b[None], new_axis=0, dtype="f8")), ("new2", lambda: x.map_blocks(lambda b: b[..., None], new_axis=2, dtype="f8")),
                          ("chunks(1,2)", lambda: x.map_blocks(lambda b: b[:1], chunks=(1, 2), dtype="f8")), ("chunks(2,1)", lambda: x.map_blocks(lambda b: b[:, :1], chunks=(2, 1), dtype="f8"))]
    fams["windows"] = [(f"swv({wd},{ax})", (lambda wd=wd, ax=ax: da.sliding_window_view(x13 + 1, wd, axis=ax))) for wd in (2, 3) for ax in (0, 1)]
    fams["take-like"] = [("take[0,2]a0", lambda: da.take(x13 + 1, [0, 2], axis=0)), ("take[0,2]a1", lambda: da.take(x13 + 1, [0, 2], axis=1)), ("take[2,0]a0", lambda: da.take(x13 + 1, [2, 0], axis=0)),
                         ("diag0", lambda: da.diagonal(x13 + 1)), ("diag1", lambda: da.diagonal(x13 + 1, 1)), ("diag-1", lambda: da.diagonal(x13 + 1, -1)),
                         ("tril", lambda: da.tril(x13 + 1)), ("triu", lambda: da.triu(x13 + 1)), ("tril1", lambda: da.tril(x13 + 1, 1))]
    d3n = np.arange(6 * 7 * 4, dtype="float64").reshape(6, 7, 4)
    d3 = da.from_array(d3n, chunks=(2, 3, 2))
    wn = np.arange(1.0, 4.0)
    regs = [((3, slice(2, 5), slice(1, 2)), "d[3,2:5,1:2]"), ((slice(3, 4), slice(2, 5), 1), "d[3:4,2:5,1]"), ((slice(3, 4), 2, slice(1, 4)), "d[3:4,2,1:4]"),
            ((3, 2, slice(1, 4)), "d[3,2,1:4]"), ((slice(3, 4), slice(2, 3), slice(1, 4)), "d[3:4,2:3,1:4]"), ((3, slice(2, 3), 1), "d[3,2:3,1]"),
            ((slice(3, 4), 2, 1), "d[3:4,2,1]")]
    # the same REGION of one source with the integer on different axes; consumed through a broadcasting op and a reduction
    fams["from_array:int-axis"] = [(lab, (lambda ix=ix: (d3[ix] * (da.from_array(wn, chunks=2) if d3n[ix].shape[-1:] == (3,) else 2.0)).sum()),
                                    (lambda ix=ix: (d3n[ix] * (wn if d3n[ix].shape[-1:] == (3,) else 2.0)).sum())) for ix, lab in regs]
    fams["from_array:int-axis"] += [(lab + ".raw", (lambda ix=ix: d3[ix] + 1), (lambda ix=ix: d3n[ix] + 1)) for ix, lab in regs]
    # creation arrays with a user-pinned name, then sliced (the rewrite product must not keep the pinned name)
    fams["creation:pinned-name"] = [
        ("full[:3].sum", lambda: da.full((10, 4), 2.0, chunks=(5, 2), name="weights-a")[:3].sum(), lambda: np.full((10, 4), 2.0)[:3].sum()),
        ("full.sum", lambda: da.full((10, 4), 2.0, chunks=(5, 2), name="weights-a").sum(), lambda: np.full((10, 4), 2.0).sum()),
        ("ones[2:4]*3", lambda: (da.ones(10, chunks=5, name="ones-o")[2:4] * 3).sum(), lambda: 6.0),
        ("ones[::2]", lambda: da.ones(10, chunks=5, name="ones-o")[::2] + 1, lambda: np.ones(10)[::2] + 1),
        ("zeros[1:,0]", lambda: da.zeros((4, 6), chunks=(2, 3), name="zeros-z")[1:, 0] + 5, lambda: np.zeros((4, 6))[1:, 0] + 5),
        ("full[[0,2]]", lambda: da.full((6,), 3.0, chunks=2, name="full-f")[[0, 2]] * 2, lambda: np.full((6,), 3.0)[[0, 2]] * 2),
        ("arange-named", lambda: da.arange(10, chunks=5, name="ar-n")[3:7] * 2, lambda: np.arange(10)[3:7] * 2),
    ]
    import gc
    # phase 0: members that come with a NumPy oracle must equal it (also when built alone)
    for fam, members in fams.items():
        for m in members:
            if len(m) < 3:
                continue
            label, mk, npf = m
            try:
                with warnings.catch_warnings():
                    warnings.simplefilter("ignore")
                    a = mk()
                    got = np.asarray(a.compute(scheduler="sync"))
                    want = np.asarray(npf())
            except Exception as e:  # noqa: BLE001
                chk.count(f"near-miss:oracle-skipped:{fam}:{type(e).__name__}")
                continue
            chk.count("near-miss:numpy-oracle")
            if got.shape != want.shape or not np.allclose(got, want):
                chk.violation(f"{fam}: {label} computes {got.tolist() if got.size < 12 else got.shape}, NumPy {want.tolist() if want.size < 12 else want.shape}: "
                              "a rewrite product carries a name that already denotes another array, and de-duplication by name substituted it",
                              {"family": fam, "member": label, "name": a.name}, signature={"class": "node-name-collision", "cls": type(a.expr).__name__, "via": "near-miss:" + fam.split(":")[0]})
            a = None
            gc.collect()
    fams = {fam: [m[:2] for m in members] for fam, members in fams.items()}
    # phase 1: every member built ALONE (the previous one dropped and collected first, so no registry can substitute it)
    solo = {}
    for fam, members in fams.items():
        for label, mk in members:
            try:
                with warnings.catch_warnings():
                    warnings.simplefilter("ignore")
                    a = mk()
                    solo[(fam, label)] = (a.name, repr(a.chunks), str(a.dtype), np.asarray(a.compute(scheduler="sync")))
            except Exception as e:  # noqa: BLE001
                chk.count(f"near-miss:skipped:{fam}:{type(e).__name__}")
            a = None
            gc.collect()
    # phase 2: all members of a family alive together
    for fam, members in fams.items():
        built = []
        for label, mk in members:
            if (fam, label) not in solo:
                continue
            try:
                with warnings.catch_warnings():
                    warnings.simplefilter("ignore")
                    a = mk()
                    val = np.asarray(a.compute(scheduler="sync"))
                    forms = {"raw": a.expr, **exprs.phases(a.expr)}
                    low = a._lowered_expr
            except Exception as e:  # noqa: BLE001
                chk.count(f"near-miss:skipped-together:{fam}:{type(e).__name__}")
                continue
            built.append((label, a, val))
            chk.count("near-miss:" + fam.split(":")[0])
            chk.case(("near-miss", fam, label), nontrivial=True)
            sname, schunks, sdtype, sval = solo[(fam, label)]
            if repr(a.chunks) != schunks or str(a.dtype) != sdtype or val.shape != sval.shape or not np.array_equal(val, sval, equal_nan=True):
                other = [l2 for l2, b, _ in built[:-1] if b.name == a.name]
                chk.violation(f"{fam}: {label} built while {other or 'other family members'} are alive is not the array it is when built alone "
                              f"(chunks {a.chunks} vs {schunks}; values {'equal' if val.shape == sval.shape and np.array_equal(val, sval, equal_nan=True) else 'differ'}): "
                              "de-duplication by name substituted a different computation",
                              {"family": fam, "member": label, "name": a.name, "alive_with_same_name": other, "chunks_now": repr(a.chunks), "chunks_alone": schunks},
                              signature={"class": "node-name-collision", "cls": type(a.expr).__name__, "via": "near-miss:" + fam.split(":")[0]})
            for e in forms.values():
                for node in e.walk():
                    if isinstance(node, ArrayExpr):
                        tie.fingerprint(node, f"{fam}/{label}")
            tie.add(list(forms.values()) + [low], f"{fam}/{label}", raw=a.expr, lowered=low)
        for (l1, a, va), (l2, b, vb) in itertools.combinations(built, 2):
            s1, s2 = solo[(fam, l1)], solo[(fam, l2)]
            if s1[0] != s2[0]:
                continue
            chk.count("near-miss:pairs-sharing-a-name")
            if s1[1:3] != s2[1:3] or s1[3].shape != s2[3].shape or not np.array_equal(s1[3], s2[3], equal_nan=True):
                chk.violation(f"{fam}: {l1} and {l2} get ONE name ({s1[0]}) but, built alone, differ in "
                              + ("chunks " if s1[1] != s2[1] else "") + ("dtype " if s1[2] != s2[2] else "")
                              + ("values" if s1[3].shape != s2[3].shape or not np.array_equal(s1[3], s2[3], equal_nan=True) else ""),
                              {"family": fam, "first": l1, "second": l2, "name": s1[0], "chunks": [s1[1], s2[1]]},
                              signature={"class": "node-name-collision", "cls": type(a.expr).__name__, "via": "near-miss:" + fam.split(":")[0]})
            else:
                chk.traces_validated += 1


def _run(chk: Check):
    import dask_array as da
    from dask_array._expr import ArrayExpr
    chk.rule = ("programs built in ONE process over a shared pool of sources (same data with different chunkings, different data with "
                "the same shape and chunking, pinned/hand-built names: FromArray regions and rechunks, Rechunk content hashes, fused groups, "
                "random arrays); every expression node of the raw, simplified, lowered and fused forms is registered under its _name with "
                "(class, shape, dtype, chunks); every graph key of every program is executed and registered with a hash of its value; a "
                "name or key seen with two different fingerprints is a violation; non-trivial = name/key seen more than once.  "
                "Model tie: every node of every form (and of targeted probes: draws from one rng object, nodes that differ only in an operand "
                "the tokenizer omits, exact-named FromArray regions/rechunks, auto chunks under two configs, and ~20 near-miss families of API calls "
                "differing in one ingredient: chunk boundaries at equal block count, index labels, axes, keywords) is (a) fingerprinted in Python "
                "(class, operands minus the omitted ones, children's names, chunks, dtype): equal names <=> equal fingerprints both ways, and "
                "(b) reified into coq/theories/Names.v; Coq checks that the model's names and tokens (executable injective hash) have exactly "
                "the equality pattern of the real _name / deterministic_token strings")
    chk.run_proofs()
    chk.assumptions = ["hash collisions excluded: dask's md5 tokenize and the pickle hash of Rechunk are injective (H_inj, Hp_inj)",
                       "id() is injective on simultaneously live untokenizable operands (addr_inj)",
                       "leaf operands are atoms: dask's normalize_token is trusted for non-expression operands",
                       "a string operand never equals the 32-hex token of an expression (children enter as tokens)",
                       "the configuration (array.chunk-size) is fixed during the process: 'auto' chunks are normalised lazily "
                       "(violated across config changes, known finding C06-B)"]
    tie = ModelTie(chk)
    probe_pairs(chk, tie, da)
    near_miss_families(chk, tie, da)
    names = {}      # _name -> (meta, class, program)
    keys = {}       # graph key -> (value fingerprint, program)
    seen_twice = 0
    shared = []
    rng = chk.rng
    # a pool where accidental name collisions would be possible
    base = np.arange(24, dtype="int64")
    for data in (base, base + 1, base[::-1].copy(), base.reshape(4, 6), base.reshape(4, 6) + 1, base.reshape(6, 4), base.reshape(2, 3, 4)):
        for _ in range(2):
            shared.append((data, tuple(progs.rand_chunks_for(rng, n) for n in data.shape)))
    n = 8000 if chk.tier == "thorough" else 1200
    model_n = 2400 if chk.tier == "thorough" else 300
    for it in range(n):
        g = progs.Gen(rng, ops=progs.CORE_OPS + ["take", "roll"], sources=shared)
        prog, want = g.program(rng.choice([1, 2, 3, 4]))
        if len(shared) > 60:
            del shared[14:30]
        pshow = progs.show(prog)
        try:
            with warnings.catch_warnings():
                warnings.simplefilter("ignore")
                arr = progs.build(prog, da, shared, memo={})
                forms = exprs.phases(arr.expr)
        except Exception:  # noqa: BLE001
            chk.count("skipped:raises")
            continue
        chk.case(("prog", pshow, it), nontrivial=True, sample={"program": pshow} if it < 4 else None)
        if it < model_n:
            try:
                with warnings.catch_warnings():
                    warnings.simplefilter("ignore")
                    low = arr._lowered_expr
            except Exception:  # noqa: BLE001
                low = None
            tie.add(list(forms.values()) + ([low] if low is not None else []), pshow, raw=arr.expr, lowered=low)
        for fname, e in forms.items():
            for node in e.walk():
                if not isinstance(node, ArrayExpr):
                    continue
                tie.fingerprint(node, pshow)
                meta = (type(node).__name__,) + node_meta(node)
                chk.count("nodes")
                old = names.get(node._name)
                if old is None:
                    names[node._name] = (meta, pshow)
                else:
                    seen_twice += 1
                    if old[0] != meta and "<meta raises>" not in (old[0][1], meta[1]):
                        chk.violation(f"two nodes named {node._name} differ: {old[0]} vs {meta}",
                                      {"name": node._name, "first": {"meta": old[0], "program": old[1]}, "second": {"meta": meta, "program": pshow}},
                                      signature={"class": "node-name-collision", "cls": meta[0]})
        # graph keys -> values
        try:
            with warnings.catch_warnings():
                warnings.simplefilter("ignore")
                dsk = dict(arr.__dask_graph__())
                if len(dsk) > 400:
                    continue
                ks = list(dsk)
                vals = dask.local.get_sync(dsk, ks)
        except Exception:  # noqa: BLE001
            chk.count("skipped:graph-raises")
            continue
        for k, v in zip(ks, vals):
            try:
                f = fp_value(v)
            except Exception:  # noqa: BLE001
                continue
            chk.count("keys")
            old = keys.get(k)
            if old is None:
                keys[k] = (f, pshow)
            else:
                seen_twice += 1
                if old[0] != f:
                    chk.violation(f"graph key {k!r} holds different values in two graphs built in this process",
                                  {"key": repr(k), "first": {"value": old[0], "program": old[1]}, "second": {"value": f, "program": pshow}},
                                  signature={"class": "key-value-collision", "prefix": str(k[0] if isinstance(k, tuple) else k).split("-")[0]})
        chk.traces_validated += 1
    # random arrays: different seeds / sizes must not share a name, equal ones must
    for seed in range(20 if chk.tier == "quick" else 200):
        r1 = da.random.default_rng(seed).random((6,), chunks=3)
        r2 = da.random.default_rng(seed).random((6,), chunks=3)
        r3 = da.random.default_rng(seed + 1).random((6,), chunks=3)
        r4 = da.random.default_rng(seed).random((6,), chunks=2)
        chk.count("random")
        chk.case(("random", seed), nontrivial=True)
        v1, v2, v3, v4 = (r.compute(scheduler="sync") for r in (r1, r2, r3, r4))
        for a, b, va, vb in ((r1, r2, v1, v2), (r1, r3, v1, v3), (r1, r4, v1, v4)):
            if a.name == b.name and not np.array_equal(va, vb):
                chk.violation("two random arrays share a name but hold different values", {"seed": seed, "a": a.name},
                              signature={"class": "node-name-collision", "cls": "Random"})
    tie.finish()
    chk.extra["distinct_names"] = len(names)
    chk.extra["distinct_keys"] = len(keys)
    chk.extra["names_or_keys_seen_more_than_once"] = seen_twice
    _ = hashlib


def replay(path):
    print(open(path).read())
