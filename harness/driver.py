"""Entry point: ./check <ID> [--tier quick|thorough] [--replay path]"""
import argparse
import importlib
import os
import sys
import traceback

sys.path.insert(0, os.path.dirname(os.path.abspath(__file__)))
from common import Check  # noqa: E402


def main():
    ap = argparse.ArgumentParser()
    ap.add_argument("pid")
    ap.add_argument("--tier", default=os.environ.get("VERIF_TIER", "quick"), choices=["quick", "thorough"])
    ap.add_argument("--replay")
    args = ap.parse_args()
    pid = args.pid.upper()
    seed = int(os.environ.get("VERIF_SEED", "0") or 0)
    mod = importlib.import_module(pid.lower())
    if args.replay:
        mod.replay(args.replay)
        return 0
    chk = Check(pid, args.tier, seed)
    # watchdog: a change to /repo may make library code (or a model evaluation) spin for ever; the check must still end with a
    # verdict.  Budget: many times the slowest observed run (quick < 6 min, thorough < 15 min on a loaded machine).
    import faulthandler
    import threading
    budget = int(os.environ.get("VERIF_BUDGET_S", "0") or 0) or (2400 if args.tier == "quick" else 10800)

    def _expired():
        try:
            import io
            buf = io.StringIO()
            faulthandler.dump_traceback(file=sys.stderr, all_threads=True)
            chk.tie_break("check-did-not-finish", {"budget_s": budget, "note": "the check was still running when its time budget ran out (a non-terminating "
                                                    "call in /repo or in a model evaluation): stack dumped to stderr; the property is not shown to hold"})
            rc = chk.finish()
        finally:
            sys.stdout.flush()
            os._exit(1)
    timer = threading.Timer(budget, _expired)
    timer.daemon = True
    timer.start()
    try:
        mod.run(chk)
        import findings_corpus
        findings_corpus.replay(chk)
    except Exception:  # the harness itself broke: report as a broken tie, never silently pass
        tb = traceback.format_exc()
        print(tb, file=sys.stderr)
        chk.tie_break("harness-exception", {"traceback": tb[-3000:]})
    timer.cancel()
    return chk.finish()


if __name__ == "__main__":
    sys.exit(main())
