"""Entry point: ./check <ID> [--tier quick|thorough] [--replay path]"""
import argparse
import importlib
import os
import sys
import traceback

sys.path.insert(0, os.path.dirname(os.path.abspath(__file__)))
from common import Check  # noqa: E402


def main():
    ap = argparse.ArgumentParser()
    ap.add_argument("pid")
    ap.add_argument("--tier", default=os.environ.get("VERIF_TIER", "quick"), choices=["quick", "thorough"])
    ap.add_argument("--replay")
    args = ap.parse_args()
    pid = args.pid.upper()
    seed = int(os.environ.get("VERIF_SEED", "0") or 0)
    mod = importlib.import_module(pid.lower())
    if args.replay:
        mod.replay(args.replay)
        return 0
    chk = Check(pid, args.tier, seed)
    try:
        mod.run(chk)
    except Exception:  # the harness itself broke: report as a broken tie, never silently pass
        tb = traceback.format_exc()
        print(tb, file=sys.stderr)
        chk.tie_break("harness-exception", {"traceback": tb[-3000:]})
    return chk.finish()


if __name__ == "__main__":
    sys.exit(main())
