"""C07 — names are deterministic and survive serialization."""
from __future__ import annotations

import json
import os
import pickle
import shutil
import subprocess
import sys
import tempfile
import warnings

import cloudpickle
import numpy as np

import exprs
import names as nm
import progs
from c07_child import summary
from common import Check, REPO, SCRATCH_ROOT, coq_eval_cases


class NodeRoundTrip:
    """Model-correspondence family: every expression NODE of the raw / simplified / lowered / fused /
    materialized forms is pickled and unpickled on its own; what __reduce__ ships (token, which cached
    properties) is compared with the model's classification `reduce_carries`, the model's round-tripped name
    (rt_name, receiving tokenizer different from the sender's) with the model's name, and the real name /
    token / chunks / dtype must not move."""

    def __init__(self, chk):
        self.chk = chk
        self.R = nm.Reifier()
        self.cases, self.info = [], []

    def add(self, arr, pshow):
        from dask._expr import Expr
        from dask_array._expr import ArrayExpr, RootAlias
        chk, R = self.chk, self.R
        try:
            with warnings.catch_warnings():
                warnings.simplefilter("ignore")
                forms = exprs.phases(arr.expr)
                low = arr._lowered_expr
        except Exception:  # noqa: BLE001
            chk.count("nodes:skipped:raises")
            return
        roots = list(forms.values()) + [low]
        for r in roots:
            for node in r.walk():
                if isinstance(node, ArrayExpr):
                    R.register(node)
        if isinstance(low, RootAlias):
            R.raw_of[id(low)] = arr.expr
        case = nm.Case(R)
        rows, seen = [], set()
        for r in roots:
            for node in r.walk():
                if not isinstance(node, ArrayExpr) or id(node) in seen:
                    continue
                seen.add(id(node))
                chk.count("nodes")
                cls = type(node).__name__
                try:
                    red = node.__reduce__()
                    typ, token, cache = red[1][0], red[1][-2], red[1][-1]
                    with warnings.catch_warnings():
                        warnings.simplefilter("ignore")
                        back = cloudpickle.loads(cloudpickle.dumps(node))
                        after = (back._name, repr(back.deterministic_token), repr(back.chunks), str(back.dtype))
                        before = (node._name, repr(node.deterministic_token), repr(node.chunks), str(node.dtype))
                except Exception as e:  # noqa: BLE001
                    chk.violation(f"pickling a {cls} node raises {type(e).__name__}: {str(e)[:100]}", {"program": pshow},
                                  signature={"class": "node-pickle-raises", "cls": cls, "error": type(e).__name__})
                    continue
                if red[0] is not Expr._reconstruct or typ is not type(node) or token != node.deterministic_token:
                    chk.violation(f"{cls}.__reduce__ does not ship (type, operands, deterministic_token, cache)", {"program": pshow},
                                  signature={"class": "node-reduce-shape", "cls": cls})
                diff = [k for k, a, b in zip(("name", "token", "chunks", "dtype"), before, after) if a != b]
                if diff:
                    chk.violation(f"a {cls} node changes {', '.join(diff)} over a pickle round trip",
                                  {"program": pshow, "before": before, "after": after},
                                  signature={"class": "node-pickle", "cls": cls, "fields": diff})
                kind = 0 if "_name" in cache else (1 if "_info" in cache else 2)
                try:
                    v = case.node(node)
                except nm.Unmodelled as e:
                    chk.count("unmodelled:" + str(e)[:60])
                    continue
                except Exception as e:  # noqa: BLE001
                    chk.count("unmodelled:raises:" + type(e).__name__)
                    continue
                ids = (R.real_names.setdefault(before[0], len(R.real_names)), R.real_names.setdefault(after[0], len(R.real_names)),
                       R.real_tokens.setdefault(before[1], len(R.real_tokens)), R.real_tokens.setdefault(after[1], len(R.real_tokens)))
                rows.append(f"({v}, {kind}, ({ids[0]}, {ids[1]}), ({ids[2]}, {ids[3]}))")
                chk.count(f"model:carries={kind}:{cls}")
        if rows:
            lets = " ".join(f"let {v} := {t} in" for v, t in case.lets)
            self.cases.append(f"({lets} [{'; '.join(rows)}])")
            self.info.append({"program": pshow, "nodes": len(rows)})

    def finish(self):
        chk = self.chk
        bad, _ = coq_eval_cases(nm.HEADER, "list (expr * Z * (Z * Z) * (Z * Z))",
                                "Definition chk (c : list (expr * Z * (Z * Z) * (Z * Z))) : bool := forallb roundtrip_ok c.",
                                self.cases, chunk=25)
        for i in bad:
            chk.tie_break("names-roundtrip-model-mismatch", {"case": self.info[i], "literal": self.cases[i][:3000]})
        chk.traces_validated += len(self.cases) - len(bad)
        chk.extra["model_cases"] = len(self.cases)
        chk.extra["model_nodes"] = sum(i["nodes"] for i in self.info)


def _set(a, v):
    a = a.copy()
    a[a > 3] = v
    return a


def _pf(b, k=1):
    return b * k


def _mk(k):
    return lambda b: b + k


def _g1(a, idx, *args, **kw):
    return np.asarray(a[idx]) * 1


def _g2(a, idx, *args, **kw):
    return np.asarray(a[idx]) * 2


def _chunkf(b, axis=None, keepdims=False):
    return np.sum(b, axis=axis, keepdims=keepdims)


def operand_probes(chk, da):
    """pairs of API calls that differ in ONE operand: whenever values, chunks or dtype differ the names must
    differ (an operand the tokenizer forgets would show up here)"""
    import operator
    A = np.arange(24, dtype="int64").reshape(4, 6)
    A1 = np.arange(12, dtype="float64")
    x = lambda: da.from_array(A, chunks=(2, 3))      # noqa: E731
    x1 = lambda: da.from_array(A1, chunks=4)         # noqa: E731
    rng = lambda s=1: da.random.default_rng(s)       # noqa: E731
    P = [
        ("sum:dtype", lambda: x().sum(dtype="f8"), lambda: x().sum(dtype="i8")),
        ("sum:dtype-f4", lambda: x1().sum(dtype="f4"), lambda: x1().sum(dtype="f8")),
        ("sum:keepdims", lambda: x().sum(axis=0, keepdims=True), lambda: x().sum(axis=0)),
        ("sum:axis", lambda: x().sum(axis=0), lambda: x().sum(axis=1)),
        ("sum:split_every", lambda: x1().rechunk(1).sum(split_every=2), lambda: x1().rechunk(1).sum(split_every=4)),
        ("sum/mean", lambda: x().mean(), lambda: x().sum()),
        ("var:ddof", lambda: x1().var(ddof=0), lambda: x1().var(ddof=1)),
        ("std:ddof", lambda: x1().std(ddof=0), lambda: x1().std(ddof=1)),
        ("nanvar:ddof", lambda: da.nanvar(x1(), ddof=0), lambda: da.nanvar(x1(), ddof=1)),
        ("moment:order", lambda: da.moment(x1(), 2), lambda: da.moment(x1(), 3)),
        ("argmax:axis", lambda: x().argmax(axis=0), lambda: x().argmax(axis=1)),
        ("argmax/argmin", lambda: x().argmax(axis=0), lambda: x().argmin(axis=0)),
        ("cumsum/cumprod", lambda: da.cumsum(x1()), lambda: da.cumprod(x1())),
        ("cumsum:dtype", lambda: da.cumsum(x1(), dtype="f4"), lambda: da.cumsum(x1(), dtype="f8")),
        ("cumsum:axis", lambda: da.cumsum(x(), axis=0), lambda: da.cumsum(x(), axis=1)),
        ("topk:k", lambda: da.topk(x1(), 2), lambda: da.topk(x1(), 3)),
        ("topk:sign", lambda: da.topk(x1(), 2), lambda: da.topk(x1(), -2)),
        ("argtopk:sign", lambda: da.argtopk(x1(), 2), lambda: da.argtopk(x1(), -2)),
        ("percentile:q", lambda: da.percentile(x1(), 50), lambda: da.percentile(x1(), 10)),
        ("percentile:method", lambda: da.percentile(x1(), 50, method="linear"), lambda: da.percentile(x1(), 50, method="lower")),
        ("median:axis", lambda: da.median(x(), axis=0), lambda: da.median(x(), axis=1)),
        ("reduction:meta-dtype", lambda: da.reduction(x1(), _chunkf, _chunkf, dtype="f8", meta=np.empty((), dtype="f4")),
         lambda: da.reduction(x1(), _chunkf, _chunkf, dtype="f8", meta=np.empty((), dtype="i2"))),
        ("reduction:meta-type", lambda: da.reduction(x1(), _chunkf, _chunkf, dtype="f8", meta=np.empty(())),
         lambda: da.reduction(x1(), _chunkf, _chunkf, dtype="f8", meta=np.ma.empty(()))),
        ("reduction:name", lambda: da.reduction(x1(), _chunkf, _chunkf, dtype="f8", name="foo"), lambda: da.reduction(x1(), _chunkf, _chunkf, dtype="f8", name="bar")),
        ("reduction:output_size", lambda: da.reduction(x1(), _chunkf, _chunkf, dtype="f8", keepdims=True, output_size=1),
         lambda: da.reduction(x1(), _chunkf, _chunkf, dtype="f8", keepdims=True, output_size=2)),
        ("reduction:concatenate", lambda: da.reduction(x1(), _chunkf, _chunkf, dtype="f8", concatenate=True),
         lambda: da.reduction(x1(), _chunkf, _chunkf, dtype="f8", concatenate=False)),
        ("from_array:meta", lambda: da.from_array(A1, chunks=4, meta=np.empty((0,))), lambda: da.from_array(A1, chunks=4, meta=np.ma.empty((0,)))),
        ("from_array:asarray", lambda: da.from_array(A1, chunks=4, asarray=True), lambda: da.from_array(A1, chunks=4, asarray=False)),
        ("from_array:fancy", lambda: da.from_array(A1, chunks=4, fancy=True), lambda: da.from_array(A1, chunks=4, fancy=False)),
        ("from_array:getitem", lambda: da.from_array(A1, chunks=4, getitem=_g1, lock=True), lambda: da.from_array(A1, chunks=4, getitem=_g2, lock=True)),
        ("from_array:inline", lambda: da.from_array(A1, chunks=4, inline_array=True), lambda: da.from_array(A1, chunks=4, inline_array=False)),
        ("from_array:dtype", lambda: da.from_array(np.arange(4, dtype="i4"), chunks=2), lambda: da.from_array(np.arange(4, dtype="i8"), chunks=2)),
        ("from_array:mask", lambda: da.from_array(np.ma.masked_array(A1, mask=A1 > 5), chunks=4), lambda: da.from_array(np.ma.masked_array(A1, mask=A1 > 6), chunks=4)),
        ("from_array:masked/plain", lambda: da.from_array(np.ma.masked_array(A1, mask=A1 > 5), chunks=4), lambda: da.from_array(A1, chunks=4)),
        ("from_array:fill_value", lambda: da.from_array(np.ma.masked_array(A1, mask=A1 > 5, fill_value=1), chunks=4).map_blocks(np.ma.filled, dtype="f8"),
         lambda: da.from_array(np.ma.masked_array(A1, mask=A1 > 5, fill_value=2), chunks=4).map_blocks(np.ma.filled, dtype="f8")),
        ("from_array:order", lambda: da.from_array(np.asfortranarray(A), chunks=2), lambda: da.from_array(A, chunks=2)),
        ("map_blocks:kwargs", lambda: x1().map_blocks(_pf, k=2, dtype="f8"), lambda: x1().map_blocks(_pf, k=3, dtype="f8")),
        ("map_blocks:dtype", lambda: x1().map_blocks(_pf, dtype="f8"), lambda: x1().map_blocks(_pf, dtype="f4")),
        ("map_blocks:meta-type", lambda: x1().map_blocks(_pf, dtype="f8", meta=np.empty((0,))), lambda: x1().map_blocks(_pf, dtype="f8", meta=np.ma.empty((0,)))),
        ("map_blocks:meta-dtype", lambda: x1().map_blocks(_pf, meta=np.empty((0,), dtype="f8")), lambda: x1().map_blocks(_pf, meta=np.empty((0,), dtype="f4"))),
        ("map_blocks:chunks", lambda: x1().map_blocks(lambda b: b[:2], dtype="f8", chunks=(2,)), lambda: x1().map_blocks(lambda b: b[:2], dtype="f8", chunks=(3,))),
        ("map_blocks:lambda", lambda: x1().map_blocks(lambda b: b + 1, dtype="f8"), lambda: x1().map_blocks(lambda b: b + 2, dtype="f8")),
        ("map_blocks:closure", lambda: x1().map_blocks(_mk(1), dtype="f8"), lambda: x1().map_blocks(_mk(2), dtype="f8")),
        ("map_blocks:name", lambda: x1().map_blocks(_pf, dtype="f8", name="nm"), lambda: x1().map_blocks(_pf, k=5, dtype="f8", name="nm")),
        ("map_blocks:drop_axis", lambda: x().map_blocks(lambda b: b.sum(axis=0), drop_axis=0, dtype="i8"), lambda: x().map_blocks(lambda b: b.sum(axis=1), drop_axis=1, dtype="i8")),
        ("map_blocks:enforce_ndim", lambda: x1().map_blocks(_pf, dtype="f8", enforce_ndim=True), lambda: x1().map_blocks(_pf, dtype="f8", enforce_ndim=False)),
        ("blockwise:concatenate", lambda: da.blockwise(_pf, "i", x1(), "i", dtype="f8", concatenate=True), lambda: da.blockwise(_pf, "i", x1(), "i", dtype="f8", concatenate=False)),
        ("blockwise:adjust_chunks", lambda: da.blockwise(_pf, "i", x1(), "i", dtype="f8", adjust_chunks={"i": 4}), lambda: da.blockwise(_pf, "i", x1(), "i", dtype="f8", adjust_chunks={"i": 5})),
        ("blockwise:adjust_chunks-fn", lambda: da.blockwise(_pf, "i", x1(), "i", dtype="f8", adjust_chunks={"i": lambda n: n}),
         lambda: da.blockwise(_pf, "i", x1(), "i", dtype="f8", adjust_chunks={"i": lambda n: 2 * n})),
        ("blockwise:new_axes", lambda: da.blockwise(lambda b: b[:, None], "ij", x1(), "i", dtype="f8", new_axes={"j": 1}),
         lambda: da.blockwise(lambda b: b[:, None], "ij", x1(), "i", dtype="f8", new_axes={"j": 2})),
        ("blockwise:meta", lambda: da.blockwise(_pf, "i", x1(), "i", dtype="f8", meta=np.empty((0,), dtype="f8")),
         lambda: da.blockwise(_pf, "i", x1(), "i", dtype="f8", meta=np.empty((0,), dtype="f4"))),
        ("blockwise:align_arrays", lambda: da.blockwise(operator.add, "i", x1(), "i", x1().rechunk(6), "i", dtype="f8", align_arrays=True),
         lambda: da.blockwise(operator.add, "i", x1(), "i", x1().rechunk(6), "i", dtype="f8", align_arrays=False)),
        ("add:dtype", lambda: da.add(x1(), 1, dtype="f4"), lambda: da.add(x1(), 1, dtype="f8")),
        ("add:1/1.0", lambda: x() + 1, lambda: x() + 1.0),
        ("add:1/True", lambda: x() + 1, lambda: x() + True),
        ("add:int8/int64", lambda: (x() + np.int8(100)) * 2, lambda: (x() + np.int64(100)) * 2),
        ("add:0.0/-0.0", lambda: 1 / (x1() * 0.0 + 0.0), lambda: 1 / (x1() * 0.0 + (-0.0))),
        ("add:where", lambda: da.add(x1(), 1, where=x1() > 3, out=da.zeros(12, chunks=4)), lambda: da.add(x1(), 1, where=x1() > 4, out=da.zeros(12, chunks=4))),
        ("clip", lambda: da.clip(x1(), 1, 5), lambda: da.clip(x1(), 1, 6)),
        ("astype", lambda: x1().astype("i4"), lambda: x1().astype("i8")),
        ("round", lambda: da.round(x1() / 3, 1), lambda: da.round(x1() / 3, 2)),
        ("isin:values", lambda: da.isin(x1(), [1, 2]), lambda: da.isin(x1(), [1, 3])),
        ("isin:invert", lambda: da.isin(x1(), [1, 2]), lambda: da.isin(x1(), [1, 2], invert=True)),
        ("rechunk:balance", lambda: x1().rechunk(5, balance=True), lambda: x1().rechunk(5, balance=False)),
        ("rechunk:block_size_limit", lambda: x1().rechunk("auto", block_size_limit=16), lambda: x1().rechunk("auto", block_size_limit=32)),
        ("transpose", lambda: x().transpose((1, 0)), lambda: x().transpose((0, 1))),
        ("concatenate:axis", lambda: da.concatenate([x(), x()], axis=0), lambda: da.concatenate([x(), x()], axis=1)),
        ("concatenate:order", lambda: da.concatenate([x(), x() + 1]), lambda: da.concatenate([x() + 1, x()])),
        ("stack:axis", lambda: da.stack([x(), x()], axis=0), lambda: da.stack([x(), x()], axis=1)),
        ("reshape:merge_chunks", lambda: x().reshape(24, merge_chunks=True), lambda: x().reshape(24, merge_chunks=False)),
        ("squeeze:axis", lambda: x()[None, :, None].squeeze(axis=0), lambda: x()[None, :, None].squeeze(axis=2)),
        ("expand_dims", lambda: da.expand_dims(x(), 0), lambda: da.expand_dims(x(), 1)),
        ("flip", lambda: da.flip(x(), 0), lambda: da.flip(x(), 1)),
        ("roll:shift", lambda: da.roll(x(), 1, 0), lambda: da.roll(x(), 2, 0)),
        ("repeat", lambda: da.repeat(x(), 2, axis=0), lambda: da.repeat(x(), 3, axis=0)),
        ("tile", lambda: da.tile(x(), 2), lambda: da.tile(x(), 3)),
        ("pad:mode", lambda: da.pad(x1(), 1, mode="edge"), lambda: da.pad(x1(), 1, mode="reflect")),
        ("pad:constant", lambda: da.pad(x1(), 1, mode="constant", constant_values=1), lambda: da.pad(x1(), 1, mode="constant", constant_values=2)),
        ("map_overlap:depth", lambda: da.map_overlap(lambda b: b * 1, x1(), depth=1, boundary="reflect", dtype="f8", trim=False),
         lambda: da.map_overlap(lambda b: b * 1, x1(), depth=2, boundary="reflect", dtype="f8", trim=False)),
        ("map_overlap:boundary", lambda: da.map_overlap(lambda b: b * 1, x1(), depth=1, boundary="reflect", dtype="f8", trim=False),
         lambda: da.map_overlap(lambda b: b * 1, x1(), depth=1, boundary="periodic", dtype="f8", trim=False)),
        ("map_overlap:boundary-value", lambda: da.map_overlap(lambda b: b * 1, x1(), depth=1, boundary=0, dtype="f8", trim=False),
         lambda: da.map_overlap(lambda b: b * 1, x1(), depth=1, boundary=7, dtype="f8", trim=False)),
        ("map_overlap:trim", lambda: da.map_overlap(lambda b: b * 1, x1(), depth=1, boundary="reflect", dtype="f8", trim=True),
         lambda: da.map_overlap(lambda b: b * 1, x1(), depth=1, boundary="reflect", dtype="f8", trim=False)),
        ("take", lambda: da.take(x1(), [1, 2]), lambda: da.take(x1(), [1, 3])),
        ("fancy-index", lambda: x1()[np.array([1, 2])], lambda: x1()[np.array([1, 3])]),
        ("bool-mask", lambda: x1()[A1 > 3], lambda: x1()[A1 > 4]),
        ("vindex", lambda: x().vindex[[0, 1], [1, 2]], lambda: x().vindex[[0, 1], [1, 3]]),
        ("slice:step", lambda: x1()[::2], lambda: x1()[::3]),
        ("slice:neg-step", lambda: x1()[::-1], lambda: x1()[::1] * 1),
        ("setitem", lambda: _set(x1(), 1), lambda: _set(x1(), 2)),
        ("diff:n", lambda: da.diff(x1(), n=1), lambda: da.diff(x1(), n=2)),
        ("histogram:bins", lambda: da.histogram(x1(), bins=3, range=(0, 12))[0], lambda: da.histogram(x1(), bins=4, range=(0, 12))[0]),
        ("histogram:range", lambda: da.histogram(x1(), bins=3, range=(0, 12))[0], lambda: da.histogram(x1(), bins=3, range=(0, 6))[0]),
        ("histogram:density", lambda: da.histogram(x1(), bins=3, range=(0, 12), density=True)[0], lambda: da.histogram(x1(), bins=3, range=(0, 12))[0]),
        ("bincount:minlength", lambda: da.bincount(x1().astype("i8"), minlength=12), lambda: da.bincount(x1().astype("i8"), minlength=14)),
        ("bincount:weights", lambda: da.bincount(x1().astype("i8"), weights=x1(), minlength=12), lambda: da.bincount(x1().astype("i8"), weights=x1() * 2, minlength=12)),
        ("tensordot:axes", lambda: da.tensordot(x(), x().T, axes=1), lambda: da.tensordot(x(), x(), axes=([0, 1], [0, 1]))),
        ("einsum", lambda: da.einsum("ij,ij->i", x(), x()), lambda: da.einsum("ij,ij->j", x(), x())),
        ("ones/zeros", lambda: da.ones(4, chunks=2), lambda: da.zeros(4, chunks=2)),
        ("full:value", lambda: da.full(4, 1, chunks=2), lambda: da.full(4, 2, chunks=2)),
        ("full:value-dtype", lambda: da.full(4, 1, chunks=2, dtype="f8"), lambda: da.full(4, 1.5, chunks=2, dtype="f8")),
        ("arange:start", lambda: da.arange(4, chunks=2), lambda: da.arange(1, 5, chunks=2)),
        ("arange:dtype", lambda: da.arange(4, chunks=2, dtype="i4"), lambda: da.arange(4, chunks=2, dtype="i8")),
        ("linspace:endpoint", lambda: da.linspace(0, 1, 4, chunks=2), lambda: da.linspace(0, 1, 4, chunks=2, endpoint=False)),
        ("eye:k", lambda: da.eye(4, chunks=2), lambda: da.eye(4, chunks=2, k=1)),
        ("tril/triu", lambda: da.tril(x()), lambda: da.triu(x())),
        ("diag:k", lambda: da.diag(x1(), k=0), lambda: da.diag(x1(), k=1)),
        ("fromfunction", lambda: da.fromfunction(lambda i: i, shape=(4,), chunks=2, dtype="f8"), lambda: da.fromfunction(lambda i: i + 1, shape=(4,), chunks=2, dtype="f8")),
        ("indices:dtype", lambda: da.indices((4,), chunks=2), lambda: da.indices((4,), chunks=2, dtype="f8")),
        ("random:chunks", lambda: rng().random(4, chunks=2), lambda: rng().random(4, chunks=4)),
        ("random:seed", lambda: rng(1).random(4, chunks=2), lambda: rng(2).random(4, chunks=2)),
        ("random:dtype", lambda: rng().random(4, chunks=2, dtype="f4"), lambda: rng().random(4, chunks=2, dtype="f8")),
        ("random:normal-loc", lambda: rng().normal(0, 1, size=4, chunks=2), lambda: rng().normal(1, 1, size=4, chunks=2)),
        ("random:normal-loc-array", lambda: rng().normal(da.zeros(4, chunks=2), 1, size=4, chunks=2), lambda: rng().normal(da.ones(4, chunks=2), 1, size=4, chunks=2)),
        ("random:integers-high", lambda: rng().integers(0, 10, size=4, chunks=2), lambda: rng().integers(0, 11, size=4, chunks=2)),
        ("random:integers-endpoint", lambda: rng().integers(0, 10, size=8, chunks=2), lambda: rng().integers(0, 10, size=8, chunks=2, endpoint=True)),
        ("random:bitgen", lambda: da.random.Generator(np.random.PCG64(1)).random(4, chunks=2), lambda: da.random.Generator(np.random.MT19937(1)).random(4, chunks=2)),
        ("random:RandomState/Generator", lambda: da.random.RandomState(1).random_sample(4, chunks=2), lambda: rng().random(4, chunks=2)),
        ("random:choice-p", lambda: rng().choice(5, size=4, chunks=2, p=[.2] * 5), lambda: rng().choice(5, size=4, chunks=2, p=[.6, .1, .1, .1, .1])),
        ("random:choice-replace", lambda: rng().choice(5, size=4, chunks=4, replace=False), lambda: rng().choice(5, size=4, chunks=4, replace=True)),
        ("random:permutation", lambda: rng(1).permutation(x1()), lambda: rng(2).permutation(x1())),
        ("random:RandomState-loc-array", lambda: da.random.RandomState(1).normal(x1(), 1, chunks=4), lambda: da.random.RandomState(1).normal(x1() + 1, 1, chunks=4)),
    ]

    def desc(a):
        with warnings.catch_warnings():
            warnings.simplefilter("ignore")
            try:
                v = np.asarray(a.compute(scheduler="sync"))
                val = (str(v.dtype), v.shape, np.ma.filled(v, -99).tolist() if v.dtype != object else repr(v))
            except Exception as e:  # noqa: BLE001
                val = ("ERR", type(e).__name__)
        return {"chunks": repr(a.chunks), "dtype": str(a.dtype), "value": repr(val)}

    for label, m1, m2 in P:
        chk.count("probe")
        try:
            with warnings.catch_warnings():
                warnings.simplefilter("ignore")
                a, b = m1(), m2()
                da_, db_ = desc(a), desc(b)
        except Exception as e:  # noqa: BLE001
            chk.count("probe:skipped:" + type(e).__name__)
            continue
        chk.case(("probe", label), nontrivial=True)
        diffs = [k for k in da_ if da_[k] != db_[k]]
        if a.name == b.name and diffs:
            chk.violation(f"probe {label}: the two calls differ in one operand, get the SAME name {a.name} but different {', '.join(diffs)}",
                          {"label": label, "first": da_, "second": db_}, signature={"class": "operand-not-in-name", "probe": label, "fields": diffs})
        else:
            chk.count("probe:names-differ" if a.name != b.name else "probe:same-name-same-array")
            chk.traces_validated += 1


def rechunk_layers_only(a, b):
    """the two optimized graphs differ only in rechunk-merge-/rechunk-split- layer names (finding C07-B: the name of a
    rechunk depends on object sharing inside its chunk tuples, so the same rechunk may appear under one or two names)"""
    d = set(a.get("_layers", [])) ^ set(b.get("_layers", []))
    return bool(d) and all(x.startswith(("rechunk-merge-", "rechunk-split-")) for x in d)


def equal_input_probes(chk, da):
    """the converse: EQUAL inputs (==, same types) spelled through different objects must give the same name"""
    x = lambda: da.ones((2, 2), chunks=1) + 1        # noqa: E731
    t = (2,)

    def f(b, p=1, q=2):
        return b * p + q

    P = [
        ("rechunk:shared-vs-unshared-chunk-tuples", lambda: x().rechunk((t, t)), lambda: x().rechunk(((2,), tuple([2])))),
        ("rechunk:dict-order", lambda: x().rechunk({0: 2, 1: 2}), lambda: x().rechunk({1: 2, 0: 2})),
        ("map_blocks:kwargs-order", lambda: x().map_blocks(f, p=3, q=4, dtype="f8"), lambda: x().map_blocks(f, q=4, p=3, dtype="f8")),
        ("sum:split_every-dict-order", lambda: x().sum(split_every={0: 2, 1: 2}), lambda: x().sum(split_every={1: 2, 0: 2})),
        ("from_array:equal-data", lambda: da.from_array(np.arange(2.0), chunks=(t,)), lambda: da.from_array(np.arange(2.0) * 1, chunks=((2,) * 1,))),
        ("slice:equal-slices", lambda: x()[slice(0, 1), slice(0, 1)], lambda: x()[0:1, 0:1]),
        ("transpose:equal-axes", lambda: x().transpose((1, 0)), lambda: x().transpose(tuple([1, 0]))),
    ]
    for label, m1, m2 in P:
        chk.count("equal-input-probe")
        chk.case(("equal-input-probe", label), nontrivial=True)
        with warnings.catch_warnings():
            warnings.simplefilter("ignore")
            a, b = m1(), m2()
        if a.name != b.name:
            chk.violation(f"probe {label}: equal inputs, different names ({a.name} / {b.name})", {"label": label},
                          signature={"class": "equal-inputs-different-names", "probe": label})
        else:
            chk.traces_validated += 1


def updated_then_pickled(chk, da):
    """(g) a collection whose keys / graph were read, then updated IN PLACE (setitem, ufunc out=, compute_chunk_sizes), then
    pickled: the copy must carry the name, keys, Frisky output keys, chunks, dtype and values the live object has NOW, and the
    live object's keys must belong to its current name"""
    rng = chk.rng
    n = 300 if chk.tier == "thorough" else 40
    for it in range(n):
        shape = (rng.choice([6, 9]),) if rng.random() < 0.5 else (4, rng.choice([3, 5]))
        data = np.arange(int(np.prod(shape)), dtype="float64").reshape(shape) - 3
        chunks = tuple(progs.rand_chunks_for(rng, s2) for s2 in shape)
        peek = rng.choice(["keys", "frisky-keys", "compute", "graph", "pickle", "none"])
        update = rng.choice(["setitem-slice", "setitem-int", "setitem-mask", "ufunc-out", "compute_chunk_sizes"])
        try:
            with warnings.catch_warnings():
                warnings.simplefilter("ignore")
                x = da.from_array(data, chunks=chunks) + 1
                if update == "compute_chunk_sizes":
                    x = x[x > 0]
                if peek == "keys":
                    x.__dask_keys__()
                elif peek == "frisky-keys":
                    x.__frisky_output_keys__()
                elif peek == "compute":
                    x.compute(scheduler="sync")
                elif peek == "graph":
                    dict(x.__dask_graph__())
                elif peek == "pickle":
                    cloudpickle.dumps(x)
                if update == "setitem-slice":
                    x[1:3] = 7.0
                elif update == "setitem-int":
                    x[0] = 5.0
                elif update == "setitem-mask":
                    x[x > 2] = -1.0
                elif update == "ufunc-out":
                    da.add(x, 2.0, out=x)
                else:
                    x.compute_chunk_sizes()
                live = summary(x)
                live["frisky_output_keys"] = repr(x.__frisky_output_keys__())
                first_key = next(iter(progs_flat(x.__dask_keys__())))
                z = cloudpickle.loads(cloudpickle.dumps(x))
                copy = summary(z)
                copy["frisky_output_keys"] = repr(z.__frisky_output_keys__())
        except Exception as e:  # noqa: BLE001
            chk.count("updated-then-pickled:skipped:" + type(e).__name__)
            continue
        chk.case(("updated-then-pickled", peek, update, shape, repr(chunks)), nontrivial=peek != "none",
                 sample={"peek": peek, "update": update, "chunks": chunks} if it < 2 else None)
        chk.count("updated-then-pickled:" + update)
        diff = [k for k in live if not k.startswith("_") and live[k] != copy[k]]
        if first_key[0] != x.name:
            diff.append("live keys do not carry the live name")
        if diff:
            chk.violation(f"after reading ({peek}) and an in-place update ({update}), the cloudpickle round trip changes " + ", ".join(diff),
                          {"peek": peek, "update": update, "chunks": chunks, "live": live, "copy": copy},
                          signature={"class": "updated-then-pickled", "fields": sorted(diff)})
        else:
            chk.traces_validated += 1


def progs_flat(keys):
    from dask.core import flatten
    return flatten(keys)


def run(chk: Check):
    with nm.recording():
        _run(chk)


def _run(chk: Check):
    import dask_array as da
    chk.rule = ("generated programs over tokenizable inputs: (a) rebuilt in the same process from a fresh construction, (b) rebuilt in fresh "
                "interpreters with different PYTHONHASHSEED values, (c) cloudpickle / pickle round trip of the collection; compared: name, "
                "__dask_keys__, the full key set of the optimized graph, chunks, dtype, __frisky_output_keys__, computed values; "
                "(d) the pickle loaded by a fresh interpreter; (e) every expression node of the raw/simplified/lowered/fused/"
                "materialized forms pickled on its own and tied to the model (reduce_carries, rt_name); (f) operand probes: "
                "pairs of API calls that differ in one operand must get different names whenever values/chunks/dtype differ; "
                "(g) collections read (keys / graph / compute), updated in place, then pickled: the copy equals the live object; "
                "non-trivial = more than one node")
    chk.run_proofs()
    chk.assumptions = ["the pickle hash behind Rechunk names (hash_buffer_hex of a protocol-5 pickle of ints/strings) is process independent",
                       "untokenizable sources get a per-instance random token (documented exception; C07_identity_operand_leaks)"]
    import time
    t0 = time.time()
    operand_probes(chk, da)
    equal_input_probes(chk, da)
    updated_then_pickled(chk, da)
    chk.extra["t_probes"] = round(time.time() - t0, 1)
    nodes = NodeRoundTrip(chk)
    d = tempfile.mkdtemp(prefix="verif-c07-", dir=SCRATCH_ROOT)
    try:
        n = 1500 if chk.tier == "thorough" else 120
        cases = []
        pickles = []
        # corpus: an arg-reduction first (known finding C07-A shows up in family (d))
        fixed = [(("elem", "add", ("reduce", "argmin", ("src", 0), 0, False, None), ("const", 1)),
                  [(np.arange(12, dtype="int64").reshape(3, 4) % 5, ((1, 2), (2, 2)))], None)]
        import itertools
        for i, (prog, sources, want) in enumerate(itertools.chain(fixed, progs.gen_programs(
                chk.rng, n, ops=progs.CORE_OPS + ["roll", "take", "swv"], depth_choices=(1, 2, 3, 4, 5)))):
            path = os.path.join(d, f"p{i}.py")
            progs.dump_case(path, prog, sources)
            prog2, sources2 = progs.load_case(path)     # what the child will see
            try:
                with warnings.catch_warnings():
                    warnings.simplefilter("ignore")
                    x = progs.build(prog2, da, sources2, memo={})
                    s1 = summary(x)
            except Exception:  # noqa: BLE001
                chk.count("skipped:raises")
                continue
            desc = progs.describe(prog2, sources2)
            chk.case(("prog", progs.show(prog2), repr([(s[0].shape, s[1]) for s in sources2])), nontrivial=len(progs.all_nodes(prog2)) > 1,
                     sample=desc if len(progs.all_nodes(prog2)) <= 4 else None)
            # (a) same process, fresh construction (new source array objects with equal contents)
            prog3, sources3 = progs.load_case(path)
            with warnings.catch_warnings():
                warnings.simplefilter("ignore")
                y = progs.build(prog3, da, sources3, memo={})
                s2 = summary(y)
            chk.count("rebuild:in-process")
            diff = [k for k in s1 if not k.startswith('_') and s1[k] != s2[k]]
            if diff:
                chk.violation("rebuilding the same program in the same process changes " + ", ".join(diff), {**desc, "first": s1, "second": s2},
                              signature={"class": "in-process", "fields": diff, "rechunk_layers_only": rechunk_layers_only(s1, s2)})
            # (c) pickle round trips
            for mod in (cloudpickle,):
                chk.count("pickle:" + mod.__name__)
                try:
                    with warnings.catch_warnings():
                        warnings.simplefilter("ignore")
                        z = mod.loads(mod.dumps(x))
                        s3 = summary(z)
                        fk1 = repr(x.__frisky_output_keys__()) if hasattr(x, "__frisky_output_keys__") else None
                        fk3 = repr(z.__frisky_output_keys__()) if hasattr(z, "__frisky_output_keys__") else None
                except Exception as e:  # noqa: BLE001
                    chk.violation(f"{mod.__name__} round trip raises {type(e).__name__}: {str(e)[:100]}", desc,
                                  signature={"class": "pickle-raises", "module": mod.__name__, "error": type(e).__name__})
                    continue
                diff = [k for k in s1 if not k.startswith('_') and s1[k] != s3[k]] + (["frisky_output_keys"] if fk1 != fk3 else [])
                if diff:
                    chk.violation(f"{mod.__name__} round trip changes " + ", ".join(diff), {**desc, "before": s1, "after": s3},
                                  signature={"class": "pickle", "fields": diff})
                else:
                    chk.traces_validated += 1
            cases.append((path, s1, desc))
            if i < (600 if chk.tier == "thorough" else 60):
                nodes.add(x, progs.show(prog2))
            # (d) unpickled in a FRESH interpreter (empty registries, different hash seed)
            pk = os.path.join(d, f"p{i}.pkl")
            try:
                with warnings.catch_warnings():
                    warnings.simplefilter("ignore")
                    with open(pk, "wb") as f:
                        cloudpickle.dump(x, f)
                pickles.append((pk, s1, desc))
            except Exception:  # noqa: BLE001
                pass        # reported by (c)
        # (h) collections whose metadata was resolved under a NON-default configuration ('auto' chunks under a small
        # array.chunk-size) and random arrays of every kind: pickled here, loaded by the fresh interpreter under the default config
        import dask as _dask
        extra = []
        with _dask.config.set({"array.chunk-size": "2KiB"}):
            big = np.arange(40 * 100, dtype="float64").reshape(40, 100)
            extra += [("from_array(auto)@2KiB", lambda: da.from_array(big, chunks="auto")),
                      ("from_array(auto)+1@2KiB", lambda: da.from_array(big, chunks="auto")[5:, ::2] + 1),
                      ("arange(auto)@2KiB", lambda: da.arange(3000, chunks="auto") * 2),
                      ("ones(auto)@2KiB", lambda: da.ones((50, 60), chunks="auto").sum(axis=0))]
            for label, mk in extra:
                try:
                    with warnings.catch_warnings():
                        warnings.simplefilter("ignore")
                        x = mk()
                        s1 = summary(x)
                        pk = os.path.join(d, f"h{len(pickles)}.pkl")
                        with open(pk, "wb") as f:
                            cloudpickle.dump(x, f)
                        progs.dump_case(pk[:-4] + ".py", ("ones", (1,), ((1,),)), [])
                    pickles.append((pk, s1, {"program": label}))
                    chk.case(("pickle-under-config", label), nontrivial=True)
                    chk.count("pickle:non-default-config")
                except Exception as e:  # noqa: BLE001
                    chk.count("pickle:non-default-config:skipped:" + type(e).__name__)
        rnd = []
        for seedv in (11, 12):
            g, rs = da.random.default_rng(seedv), da.random.RandomState(seedv)
            rnd += [("Generator.normal", g.normal(1.0, 2.0, size=(6, 4), chunks=(3, 2))), ("Generator.poisson", g.poisson(3.0, size=(8,), chunks=3)),
                    ("Generator.random", g.random((6,), chunks=2)), ("Generator.uniform", g.uniform(size=(5,), chunks=2)),
                    ("Generator.integers", g.integers(0, 9, size=(7,), chunks=3)), ("Generator.choice", g.choice(10, size=(8,), chunks=4)),
                    ("RandomState.normal", rs.normal(size=(6,), chunks=3)), ("RandomState.poisson", rs.poisson(2.0, size=(6,), chunks=2)),
                    ("RandomState.random_sample", rs.random_sample((5,), chunks=2)), ("derived", g.normal(size=(6,), chunks=3).cumsum(axis=0) * 2)]
        for label, x in rnd:
            chk.count("pickle:random")
            chk.case(("pickle-random", label, x.name), nontrivial=True)
            try:
                with warnings.catch_warnings():
                    warnings.simplefilter("ignore")
                    s1 = summary(x)
                    blob = cloudpickle.dumps(x)
                    s3 = summary(cloudpickle.loads(blob))
                    pk = os.path.join(d, f"h{len(pickles)}.pkl")
                    open(pk, "wb").write(blob)
                    progs.dump_case(pk[:-4] + ".py", ("ones", (1,), ((1,),)), [])
            except Exception as e:  # noqa: BLE001
                chk.violation(f"cloudpickle round trip of a random array ({label}) raises {type(e).__name__}: {str(e)[:100]}", {"program": label},
                              signature={"class": "pickle-raises", "module": "cloudpickle", "error": type(e).__name__})
                continue
            diff = [k for k in s1 if not k.startswith("_") and s1[k] != s3[k]]
            if diff:
                chk.violation(f"cloudpickle round trip of a random array ({label}) changes " + ", ".join(diff), {"program": label, "before": s1, "after": s3},
                              signature={"class": "pickle", "fields": diff, "random": label.split(".")[0]})
            else:
                chk.traces_validated += 1
            pickles.append((pk, s1, {"program": "random:" + label}))
        chk.extra["t_main"] = round(time.time() - t0, 1)
        nodes.finish()
        chk.extra["t_nodes_coq"] = round(time.time() - t0, 1)
        # (d) pickles loaded by a fresh interpreter
        for k in range(0, len(pickles), 60):
            part = pickles[k:k + 60]
            env = dict(os.environ, PYTHONHASHSEED="4242", PYTHONPATH=f"{REPO}:{os.path.dirname(os.path.abspath(__file__))}")
            p = subprocess.run([sys.executable, os.path.join(os.path.dirname(os.path.abspath(__file__)), "c07_child.py"), *[c[0] for c in part]],
                               env=env, stdout=subprocess.PIPE, stderr=subprocess.PIPE, text=True, timeout=600)
            line = [ln for ln in p.stdout.splitlines() if ln.startswith("C07CHILD ")]
            if not line:
                chk.tie_break("harness:c07-child-failed", {"stderr": p.stderr[-1500:]})
                continue
            res = json.loads(line[0][len("C07CHILD "):])
            for path, s1, desc in part:
                chk.count("unpickle:fresh-process")
                s5 = res.get(path, {"error": "missing"})
                diff = [k2 for k2 in s1 if not k2.startswith('_') and s1.get(k2) != s5.get(k2)]
                if diff:
                    arg = any(o.startswith("reduce:arg") for o in progs.ops_in(progs.load_case(path[:-4] + ".py")[0]))
                    chk.violation("unpickling in a fresh interpreter changes " + ", ".join(diff), {**desc, "here": s1, "fresh_process": s5},
                                  signature={"class": "cross-process-pickle", "fields": diff, "arg_reduction": arg,
                                             "rechunk_layers_only": rechunk_layers_only(s1, s5)})
                else:
                    chk.traces_validated += 1
        chk.extra["t_unpickle"] = round(time.time() - t0, 1)
        # (b) fresh interpreters, different hash seeds
        per = 40
        for hs in ((1, 12345) if chk.tier == "quick" else (1, 7, 12345, 99999)):
            for k in range(0, len(cases), per):
                part = cases[k:k + per]
                env = dict(os.environ, PYTHONHASHSEED=str(hs), PYTHONPATH=f"{REPO}:{os.path.dirname(os.path.abspath(__file__))}")
                p = subprocess.run([sys.executable, os.path.join(os.path.dirname(os.path.abspath(__file__)), "c07_child.py"), *[c[0] for c in part]],
                                   env=env, stdout=subprocess.PIPE, stderr=subprocess.PIPE, text=True, timeout=600)
                line = [ln for ln in p.stdout.splitlines() if ln.startswith("C07CHILD ")]
                if not line:
                    chk.tie_break("harness:c07-child-failed", {"stderr": p.stderr[-1500:]})
                    continue
                res = json.loads(line[0][len("C07CHILD "):])
                for path, s1, desc in part:
                    chk.count("rebuild:fresh-process")
                    s4 = res.get(path, {"error": "missing"})
                    diff = [k for k in s1 if not k.startswith('_') and s1.get(k) != s4.get(k)]
                    if diff:
                        chk.violation(f"rebuilding in a fresh interpreter (PYTHONHASHSEED={hs}) changes " + ", ".join(diff),
                                      {**desc, "here": s1, "fresh_process": s4},
                                      signature={"class": "cross-process", "fields": diff, "rechunk_layers_only": rechunk_layers_only(s1, s4)})
                    else:
                        chk.traces_validated += 1
    finally:
        shutil.rmtree(d, ignore_errors=True)


def replay(path):
    print(open(path).read())
