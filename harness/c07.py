"""C07 — names are deterministic and survive serialization."""
from __future__ import annotations

import json
import os
import pickle
import shutil
import subprocess
import sys
import tempfile
import warnings

import cloudpickle
import numpy as np

import progs
from c07_child import summary
from common import Check, REPO, SCRATCH_ROOT


def run(chk: Check):
    import dask_array as da
    chk.rule = ("generated programs over tokenizable inputs: (a) rebuilt in the same process from a fresh construction, (b) rebuilt in fresh "
                "interpreters with different PYTHONHASHSEED values, (c) cloudpickle / pickle round trip of the collection; compared: name, "
                "__dask_keys__, the full key set of the optimized graph, chunks, dtype, __frisky_output_keys__, computed values; "
                "non-trivial = more than one node")
    chk.run_proofs()
    d = tempfile.mkdtemp(prefix="verif-c07-", dir=SCRATCH_ROOT)
    try:
        n = 1500 if chk.tier == "thorough" else 120
        cases = []
        for i, (prog, sources, want) in enumerate(progs.gen_programs(chk.rng, n, ops=progs.CORE_OPS + ["roll", "take", "swv"], depth_choices=(1, 2, 3, 4, 5))):
            path = os.path.join(d, f"p{i}.py")
            progs.dump_case(path, prog, sources)
            prog2, sources2 = progs.load_case(path)     # what the child will see
            try:
                with warnings.catch_warnings():
                    warnings.simplefilter("ignore")
                    x = progs.build(prog2, da, sources2, memo={})
                    s1 = summary(x)
            except Exception:  # noqa: BLE001
                chk.count("skipped:raises")
                continue
            desc = progs.describe(prog2, sources2)
            chk.case(("prog", progs.show(prog2), repr([(s[0].shape, s[1]) for s in sources2])), nontrivial=len(progs.all_nodes(prog2)) > 1,
                     sample=desc if len(progs.all_nodes(prog2)) <= 4 else None)
            # (a) same process, fresh construction (new source array objects with equal contents)
            prog3, sources3 = progs.load_case(path)
            with warnings.catch_warnings():
                warnings.simplefilter("ignore")
                y = progs.build(prog3, da, sources3, memo={})
                s2 = summary(y)
            chk.count("rebuild:in-process")
            diff = [k for k in s1 if s1[k] != s2[k]]
            if diff:
                chk.violation("rebuilding the same program in the same process changes " + ", ".join(diff), {**desc, "first": s1, "second": s2},
                              signature={"class": "in-process", "fields": diff})
            # (c) pickle round trips
            for mod in (cloudpickle,):
                chk.count("pickle:" + mod.__name__)
                try:
                    with warnings.catch_warnings():
                        warnings.simplefilter("ignore")
                        z = mod.loads(mod.dumps(x))
                        s3 = summary(z)
                        fk1 = repr(x.__frisky_output_keys__()) if hasattr(x, "__frisky_output_keys__") else None
                        fk3 = repr(z.__frisky_output_keys__()) if hasattr(z, "__frisky_output_keys__") else None
                except Exception as e:  # noqa: BLE001
                    chk.violation(f"{mod.__name__} round trip raises {type(e).__name__}: {str(e)[:100]}", desc,
                                  signature={"class": "pickle-raises", "module": mod.__name__, "error": type(e).__name__})
                    continue
                diff = [k for k in s1 if s1[k] != s3[k]] + (["frisky_output_keys"] if fk1 != fk3 else [])
                if diff:
                    chk.violation(f"{mod.__name__} round trip changes " + ", ".join(diff), {**desc, "before": s1, "after": s3},
                                  signature={"class": "pickle", "fields": diff})
                else:
                    chk.traces_validated += 1
            cases.append((path, s1, desc))
        # (b) fresh interpreters, different hash seeds
        per = 40
        for hs in ((1, 12345) if chk.tier == "quick" else (1, 7, 12345, 99999)):
            for k in range(0, len(cases), per):
                part = cases[k:k + per]
                env = dict(os.environ, PYTHONHASHSEED=str(hs), PYTHONPATH=f"{REPO}:{os.path.dirname(os.path.abspath(__file__))}")
                p = subprocess.run([sys.executable, os.path.join(os.path.dirname(os.path.abspath(__file__)), "c07_child.py"), *[c[0] for c in part]],
                                   env=env, stdout=subprocess.PIPE, stderr=subprocess.PIPE, text=True, timeout=600)
                line = [ln for ln in p.stdout.splitlines() if ln.startswith("C07CHILD ")]
                if not line:
                    chk.tie_break("harness:c07-child-failed", {"stderr": p.stderr[-1500:]})
                    continue
                res = json.loads(line[0][len("C07CHILD "):])
                for path, s1, desc in part:
                    chk.count("rebuild:fresh-process")
                    s4 = res.get(path, {"error": "missing"})
                    diff = [k for k in s1 if s1.get(k) != s4.get(k)]
                    if diff:
                        chk.violation(f"rebuilding in a fresh interpreter (PYTHONHASHSEED={hs}) changes " + ", ".join(diff),
                                      {**desc, "here": s1, "fresh_process": s4}, signature={"class": "cross-process", "fields": diff})
                    else:
                        chk.traces_validated += 1
    finally:
        shutil.rmtree(d, ignore_errors=True)


def replay(path):
    print(open(path).read())
