"""C12 — Indexing follows NumPy semantics for every supported index.

Correspondence:
  (a) impl (normalize_index, Array.__getitem__ -> SliceSlicesIntegers / ExpandDims nodes, their
      .chunks and ._layer()) vs the Gallina model (coq/theories/Indexing.v) evaluated inside Coq;
  (b) impl vs the property itself: x[idx].compute() (and the real SliceSlicesIntegers layer
      interpreted block by block on NumPy blocks) vs NumPy for basic indices; by value only for
      the fancy paths (boolean masks, integer dask arrays, .vindex, .blocks, unknown chunks);
  (c) ONE-DIMENSIONAL integer lists / ndarrays (x[:, [3, 0, 3]], da.take): the node that is built (IndexError /
      slice(0,0,1) / x itself / Shuffle), the normalised index, Shuffle.indexer, ._new_chunks, .chunks and the plan
      read back from Shuffle._layer() of the LOWERED expression (per output block: the split tasks = (input block,
      local offsets) and, after undoing the sorter, the (input block, local offset) of every output element) vs the
      Gallina model coq/theories/TakeModel.v inside Coq; the plan interpreted by hand on NumPy blocks vs NumPy."""
from __future__ import annotations

import itertools
import json
import warnings
from numbers import Integral

import numpy as np

from common import Check, cbool, clist, coq_eval_cases, coq_eval_expr, cslice, ctuple, cz
from c13 import all_slices, compositions, sl_repr

HEADER = "From DA Require Import PyBase Slicing Indexing IndexingBlocks.\nOpen Scope Z_scope.\n"

NODE_DEF = """
Inductive obs := OErr (e : nres) | OSelf
  | ONode (index : list ielem) (allow : bool) (axes : list Z) (sc fc : list (list Z))
          (layer : list (list Z * (list Z * list ploc) * bool)).
Definition entry_eqb (a b : list Z * (list Z * list ploc) * bool) : bool :=
  let '(o1, (i1, s1), f1) := a in let '(o2, (i2, s2), f2) := b in
  zlist_eqb o1 o2 && zlist_eqb i1 i2 && list_eqb ploc_eqb s1 s2 && Bool.eqb f1 f2.
Definition chk (c : list ielem * list Z * list (list Z) * obs) : bool :=
  let '(idx, shape, chunks, o) := c in
  match getitem_basic idx shape, o with
  | GErr e, OErr e' => nres_eqb e e'
  | GSelf, OSelf => true
  | GNode index allow axes, ONode index' allow' axes' sc fc layer =>
      list_eqb ielem_eqb index index' && Bool.eqb allow allow' && zlist_eqb axes axes' &&
      ssi_wf_b shape chunks index &&   (* the hypothesis of C12_basic_index_blocks holds of the real node *)
      zlist2_eqb (ssi_chunks shape chunks index) sc &&
      zlist2_eqb (getitem_chunks shape chunks index axes) fc &&
      list_eqb entry_eqb (map (fun e => (e, entry_is_alias allow (snd (snd e)))) (ssi_layer shape chunks index)) layer
  | _, _ => false
  end.
"""
NODE_TYPE = "list ielem * list Z * list (list Z) * obs"

NORM_DEF = ("Definition chk (c : list ielem * list Z * nres) : bool := "
            "let '(idx, shape, o) := c in nres_eqb (normalize_index idx shape) o.")
NORM_TYPE = "list ielem * list Z * nres"


# ---------------------------------------------------------------------------
# printing
def e_repr(e):
    if e is None:
        return "None"
    if e is Ellipsis:
        return "Ellipsis"
    if isinstance(e, slice):
        return sl_repr(e)
    if isinstance(e, np.ndarray):
        return f"np.array({e.tolist()!r})" + ("" if e.size else f".astype('{e.dtype}')")
    if isinstance(e, (bool, np.bool_)):
        return repr(bool(e))
    if isinstance(e, Integral):
        return str(int(e))
    return repr(e)


def idx_repr(idx):
    if not isinstance(idx, tuple):
        return e_repr(idx)
    return "(" + ", ".join(e_repr(e) for e in idx) + ("," if len(idx) == 1 else "") + ")"


def cielem(e):
    if e is None:
        return "ENone"
    if e is Ellipsis:
        return "EEllipsis"
    if isinstance(e, slice):
        return f"(ESlice {cslice(e)})"
    return f"(EInt {cz(e)})"


def cploc(v):
    if isinstance(v, slice):
        return f"(LSlice {cslice(v)})"
    return f"(LInt {cz(v)})"


def cnres(r):
    if isinstance(r, str):
        return r
    return f"(NOk {clist(r, cielem)})"


ERRMAP = {IndexError: "NIndexError", TypeError: "NTypeError", ValueError: "NValueError"}


def err_name(e):
    for k, v in ERRMAP.items():
        if isinstance(e, k):
            return v
    return "Other:" + type(e).__name__


def as_tuple(idx):
    return idx if isinstance(idx, tuple) else (idx,)


# ---------------------------------------------------------------------------
class Impl:
    def __init__(self):
        import dask_array as da
        from dask._task_spec import Alias
        from dask_array.manipulation._expand import ExpandDims
        from dask_array.slicing import SliceSlicesIntegers, normalize_index
        self.da = da
        self.normalize_index = normalize_index
        self.SSI = SliceSlicesIntegers
        self.ExpandDims = ExpandDims
        self.Alias = Alias

    def arr(self, a, chunks):
        return self.da.from_array(a, chunks=chunks)


def base_array(shape):
    return np.arange(int(np.prod(shape, dtype=int))).reshape(shape) * 3 + 1


def np_eval(f):
    try:
        return np.asarray(f()), None
    except Exception as e:  # noqa: BLE001
        return None, e


def da_eval(f):
    with warnings.catch_warnings():
        warnings.simplefilter("ignore")
        try:
            return np.asarray(f().compute(scheduler="sync")), None
        except Exception as e:  # noqa: BLE001
            return None, e


def same(r, w):
    return r.shape == w.shape and r.dtype.kind == w.dtype.kind and np.array_equal(r, w)


# ---------------------------------------------------------------------------
# the real SliceSlicesIntegers layer, interpreted on NumPy blocks
def observe_node(impl, x, y):
    """Canonical description of what x[idx] built (None if not a basic-slicing node)."""
    if y is x:
        return "OSelf", None, None
    expr = y.expr
    axes = ()
    if isinstance(expr, impl.ExpandDims):
        axes = tuple(int(k) for k in expr.axes)
        expr = expr.array
    if not isinstance(expr, impl.SSI):
        return None, None, None
    layer = []
    for key, task in expr._layer().items():
        out = tuple(int(k) for k in key[1:])
        if isinstance(task, impl.Alias):
            tgt = task.target
            tgt = getattr(tgt, "key", tgt)
            inkey = tuple(int(k) for k in tgt[1:])
            sl = (slice(None),) * len(inkey)
            alias = True
        else:
            inkey = tuple(int(k) for k in task.args[0].key[1:])
            sl = tuple(task.args[1])
            alias = False
        layer.append((out, inkey, sl, alias))
    lit = ("(ONode " + clist(expr.index, cielem) + " " + cbool(bool(expr.allow_getitem_optimization)) + " " +
           clist(axes) + " " + clist(expr.chunks, clist) + " " + clist(y.chunks, clist) + " " +
           clist(layer, lambda e: ctuple(clist(e[0]), ctuple(clist(e[1]), clist(e[2], cploc)), cbool(e[3]))) + ")")
    return lit, expr, (axes, layer)


def interpret_layer(a, chunks, expr, layer):
    """Run the layer by hand: every output block = (input block)[local slices]; returns
    (assembled array | None, list of problems)."""
    problems = []
    offs = [np.concatenate([[0], np.cumsum(c)]).astype(int) for c in chunks]
    oc = expr.chunks
    ooffs = [np.concatenate([[0], np.cumsum(c)]).astype(int) for c in oc]
    res = np.full(tuple(int(sum(c)) for c in oc), -7, dtype=a.dtype)
    grid = set(itertools.product(*[range(len(c)) for c in oc]))
    seen = set()
    for out, inkey, sl, _alias in layer:
        if out in seen:
            problems.append(f"output block {out} produced twice")
        seen.add(out)
        if out not in grid:
            problems.append(f"output block {out} outside the advertised block grid")
            continue
        blk = a[tuple(slice(offs[d][b], offs[d][b + 1]) for d, b in enumerate(inkey))]
        try:
            piece = blk[sl]
        except IndexError as e:
            problems.append(f"local index {sl} does not fit block {inkey}: {e}")
            continue
        want = tuple(int(oc[d][o]) for d, o in enumerate(out))
        if piece.shape != want:
            problems.append(f"block {out}: produced shape {piece.shape} != advertised chunk {want}")
            continue
        res[tuple(slice(ooffs[d][o], ooffs[d][o + 1]) for d, o in enumerate(out))] = piece
    if seen != grid:
        problems.append(f"output keys {sorted(seen)} != block grid {sorted(grid)}")
    return (None if problems else res), problems


# ---------------------------------------------------------------------------
class BasicRunner:
    """Collects the cases of the basic-index families; one Coq batch at the end."""

    def __init__(self, chk, impl):
        self.chk, self.impl = chk, impl
        self.norm_cases, self.norm_inputs = [], []
        self.node_cases, self.node_inputs = [], []
        self.norm_seen = {}

    # -- normalize_index: impl vs NumPy positions; model case recorded
    def normalize(self, idx, shape):
        key = (idx_repr(idx), shape)
        if key in self.norm_seen:
            return self.norm_seen[key]
        chk = self.chk
        try:
            out = tuple(self.impl.normalize_index(idx, shape))
        except Exception as e:  # noqa: BLE001
            out = err_name(e)
        self.norm_seen[key] = out
        t = as_tuple(idx)
        self.norm_cases.append(ctuple(clist(t, cielem), clist(shape), cnres(out)))
        self.norm_inputs.append((idx, shape, out))
        a = base_array(shape)
        want, werr = np_eval(lambda: a[idx])
        chk.count("normalize:" + ("ok" if not isinstance(out, str) else out))
        if isinstance(out, str):
            if out.startswith("Other"):
                chk.violation("normalize_index raised an unexpected exception class",
                              {"fn": "normalize_index", "index": idx_repr(idx), "shape": shape, "impl": out},
                              signature={"path": "basic", "class": "normalize-raises-" + out})
            if werr is None:
                chk.violation("normalize_index rejects an index NumPy accepts",
                              {"fn": "normalize_index", "index": idx_repr(idx), "shape": shape, "impl": out},
                              signature={"path": "basic", "class": "rejects-valid"})
            elif err_name(werr) != out:
                chk.count("raise-kind-differs:" + out + "-vs-numpy-" + type(werr).__name__)
        else:
            if werr is not None:
                chk.violation("normalize_index accepts an index NumPy rejects",
                              {"fn": "normalize_index", "index": idx_repr(idx), "shape": shape,
                               "impl": idx_repr(out), "numpy": repr(werr)},
                              signature={"path": "basic", "class": "accepts-invalid"})
            else:
                got = a[out]
                if not same(got, want):
                    chk.violation("the normalized index selects different elements than the original",
                                  {"fn": "normalize_index", "index": idx_repr(idx), "shape": shape, "impl": idx_repr(out),
                                   "want_shape": want.shape, "got_shape": got.shape},
                                  signature={"path": "basic", "class": "normalize-changes-selection"})
        return out

    # -- x[idx]: node vs model (recorded), values vs NumPy, layer by hand vs NumPy
    def getitem(self, idx, shape, chunks, corpus=None):
        chk, impl = self.chk, self.impl
        a = base_array(shape)
        x = impl.arr(a, chunks)
        want, werr = np_eval(lambda: a[idx])
        data = {"fn": "getitem", "shape": shape, "chunks": chunks, "index": idx_repr(idx)}
        with warnings.catch_warnings():
            warnings.simplefilter("ignore")
            try:
                y, yerr = x[idx], None
            except Exception as e:  # noqa: BLE001
                y, yerr = None, e
        neg = any(isinstance(e, slice) and (e.step or 1) < 0 for e in as_tuple(idx))
        chk.count("getitem:rank%d" % len(shape) + (":neg" if neg else "") + (":raises" if yerr is not None else ""))
        nontriv = yerr is None and y is not x
        chk.case(("getitem", shape, chunks, idx_repr(idx)), nontrivial=nontriv,
                 sample={**data, "numpy_shape": None if want is None else want.shape})
        if yerr is not None:
            lit = f"(OErr {err_name(yerr)})" if not err_name(yerr).startswith("Other") else None
            if werr is None:
                chk.violation("x[idx] raises for an index NumPy accepts", {**data, "impl": repr(yerr)[:200]},
                              signature={"path": "basic", "class": "raises-on-valid"})
            if lit is None:
                chk.violation("x[idx] raised an unexpected exception class", {**data, "impl": repr(yerr)[:200]},
                              signature={"path": "basic", "class": "raises-" + type(yerr).__name__})
                return
        else:
            lit, expr, extra = observe_node(impl, x, y)
            if werr is not None:
                chk.violation("x[idx] accepts an index NumPy rejects (out of bounds / malformed)",
                              {**data, "numpy": repr(werr)[:200]}, signature={"path": "basic", "class": "accepts-invalid"})
                return
            got, gerr = da_eval(lambda: y)
            if gerr is not None:
                chk.violation("x[idx].compute() raises", {**data, "impl": repr(gerr)[:200]},
                              signature={"path": "basic", "class": "compute-raises"})
            elif not same(got, want):
                chk.violation("x[idx].compute() differs from NumPy",
                              {**data, "want": want.tolist(), "got": got.tolist()},
                              signature={"path": "basic", "class": "wrong-value" + (":neg-step" if neg else "")})
            if tuple(map(lambda c: tuple(int(v) for v in c), y.chunks)) != tuple(y.chunks) or \
                    tuple(sum(c) for c in y.chunks) != want.shape:
                chk.violation("advertised chunks do not add up to NumPy's result shape",
                              {**data, "chunks_out": y.chunks, "numpy_shape": want.shape},
                              signature={"path": "basic", "class": "chunks-shape"})
            if lit is None:
                chk.tie_break("correspondence:getitem-node", {**data, "expr": type(y.expr).__name__})
                return
            if expr is not None:
                axes, layer = extra
                res, problems = interpret_layer(a, chunks, expr, layer)
                if not problems:
                    inner_want = a[tuple(expr.index)]
                    if not same(res, inner_want):
                        problems.append("blocks assembled from the layer differ from NumPy")
                    else:
                        full = res
                        for ax in sorted(axes):
                            full = np.expand_dims(full, ax)
                        if not same(full, want):
                            problems.append("ExpandDims axes do not reproduce NumPy's result")
                if problems:
                    chk.violation("SliceSlicesIntegers layer: " + "; ".join(problems[:3]),
                                  {**data, "node_index": idx_repr(tuple(expr.index)), "node_chunks": expr.chunks},
                                  signature={"path": "basic", "class": "layer" + (":neg-step" if neg else "")})
        self.node_cases.append(ctuple(clist(as_tuple(idx), cielem), clist(shape), clist(chunks, clist), lit))
        self.node_inputs.append((idx, shape, chunks, lit))

    def flush(self):
        chk = self.chk
        mism, _ = coq_eval_cases(HEADER, NORM_TYPE, NORM_DEF, self.norm_cases, chunk=800)
        for i in mism[:5]:
            idx, shape, out = self.norm_inputs[i]
            model = coq_eval_expr(HEADER, [f"normalize_index {clist(as_tuple(idx), cielem)} {clist(shape)}"])[0]
            chk.tie_break("correspondence:normalize_index",
                          {"index": idx_repr(idx), "shape": shape, "impl": out if isinstance(out, str) else idx_repr(out), "model": model})
        chk.traces_validated += len(self.norm_cases) - len(mism)
        mism, _ = coq_eval_cases(HEADER, NODE_TYPE, NODE_DEF, self.node_cases, chunk=500)
        for i in mism[:5]:
            idx, shape, chunks, lit = self.node_inputs[i]
            t = clist(as_tuple(idx), cielem)
            model = coq_eval_expr(HEADER, [
                f"getitem_basic {t} {clist(shape)}",
                f"match getitem_basic {t} {clist(shape)} with GNode ix al ax => "
                f"(ssi_chunks {clist(shape)} {clist(chunks, clist)} ix, getitem_chunks {clist(shape)} {clist(chunks, clist)} ix ax, "
                f"ssi_layer {clist(shape)} {clist(chunks, clist)} ix) | _ => ([], [], []) end"])
            chk.tie_break("correspondence:getitem-node",
                          {"index": idx_repr(idx), "shape": shape, "chunks": chunks, "impl": lit[:1500], "model": model})
        chk.traces_validated += len(self.node_cases) - len(mism)


# ---------------------------------------------------------------------------
# generators
def zero_variants(cs, limit):
    out = []
    for pos in range(len(cs) + 1):
        out.append(cs[:pos] + (0,) + cs[pos:])
    return out[:limit]


def chunkings_1d(n, tier):
    if n == 0:
        return [(0,), (0, 0)]
    comps = list(compositions(n))
    out = list(comps)
    for cs in comps:
        if len(cs) <= (3 if tier == "thorough" else 2):
            out += zero_variants(cs, 4 if tier == "thorough" else 2)
    return out


def rand_chunks_axis(rng, n):
    if n == 0:
        return rng.choice([(0,), (0,), (0, 0)])
    k = min(rng.choice([1, 1, 2, 2, 3, 4]), n)
    cuts = sorted(rng.sample(range(1, n), k - 1)) if k > 1 else []
    cs = [b - a for a, b in zip([0] + cuts, cuts + [n])]
    if rng.random() < 0.2:
        cs.insert(rng.randrange(len(cs) + 1), 0)
    return tuple(cs)


def rand_slice(rng, n):
    def ep():
        return None if rng.random() < 0.3 else rng.randint(-n - 2, n + 2)
    return slice(ep(), ep(), rng.choice([None, None, 1, 2, 3, -1, -1, -2, -3, n + 1, -(n + 1)]))


def rand_basic_index(rng, shape):
    rank = len(shape)
    ents = []
    for d in shape:
        r = rng.random()
        if r < 0.3:
            if d > 0 and rng.random() < 0.9:
                ents.append(rng.randint(-d, d - 1))
            else:
                ents.append(rng.choice([d, -d - 1, d + 1]))
        elif r < 0.4:
            ents.append(slice(None))
        else:
            ents.append(rand_slice(rng, d))
    r = rng.random()
    if r < 0.30:                           # drop trailing entries
        ents = ents[: rng.randint(0, len(ents))]
    elif r < 0.55 and rank > 0:            # an Ellipsis replaces a run of entries
        i = rng.randint(0, rank)
        j = rng.randint(i, rank)
        ents = ents[:i] + [Ellipsis] + ents[j:]
    elif r < 0.60:                         # two ellipses: NumPy raises
        i = rng.randint(0, len(ents))
        ents = ents[:i] + [Ellipsis] + ents[i:]
        j = rng.randint(0, len(ents))
        ents = ents[:j] + [Ellipsis] + ents[j:]
    elif r < 0.65:                         # too many
        ents = ents + [rng.choice([0, slice(None)])]
    for _ in range(rng.choice([0, 0, 0, 1, 1, 2])):
        ents.insert(rng.randint(0, len(ents)), None)
    if len(ents) == 1 and rng.random() < 0.5:
        return ents[0]
    return tuple(ents)


def fam_chained(chk, impl, tier):
    """two or three successive getitems (the optimizer fuses them into one source index): x[i1][i2][i3] must be NumPy's"""
    import random as _random
    rng = _random.Random(f"C12-chained-{chk.seed}")
    for k in range(6000 if tier == "thorough" else 700):
        shape, chunks = rand_shape_chunks(rng, dims=(1, 2, 3, 4, 5, 6, 7, 9))
        a = base_array(shape)
        x = impl.arr(a, chunks)
        idxs, cur = [], a
        ok = True
        for _ in range(rng.choice([2, 2, 3])):
            if cur.ndim == 0:
                break
            ix = rand_basic_index(rng, cur.shape)
            if rng.random() < 0.5 and cur.ndim and cur.shape[0] > 1:
                # a strided / offset slice followed (next round) by an integer is the interesting fusion
                st = rng.choice([2, 3, -1, -2, 1])
                ix = (slice(rng.choice([None, 0, 1, 2]), None, st),) + tuple(ix[1:]) if isinstance(ix, tuple) else (slice(None, None, st),)
            try:
                cur = cur[ix]
            except Exception:  # noqa: BLE001
                ok = False
                break
            idxs.append(ix)
            if rng.random() < 0.5 and cur.ndim and cur.shape[0] > 0:
                j = rng.randrange(-cur.shape[0], cur.shape[0])
                cur = cur[j]
                idxs.append(j)
        if not ok or len(idxs) < 2:
            continue

        def apply(y):
            for ix in idxs:
                y = y[ix]
            return y
        want, werr = np_eval(lambda: apply(a))
        got, gerr = da_eval(lambda: apply(x))
        data = {"fn": "chained-getitem", "shape": shape, "chunks": chunks, "indices": [idx_repr(as_tuple(i)) for i in idxs]}
        chk.count(f"chained:{len(idxs)}")
        chk.case(("chained", k, shape, chunks, repr(data["indices"])), nontrivial=True, sample=data if k < 3 else None)
        judge(chk, "chained", data, got, gerr, want, werr)


def fam_daskint_multi(chk, impl, tier):
    """several integer dask arrays in ONE index tuple, at least one of them 0-d (it drops its axis like a Python int), on
    arrays of rank >= 3; NumPy is the oracle"""
    import random as _random
    rng = _random.Random(f"C12-daskint-multi-{chk.seed}")
    da = impl.da
    for k in range(2500 if tier == "thorough" else 300):
        shape, chunks = rand_shape_chunks(rng, ranks=(3, 3, 4), dims=(1, 2, 3, 4, 5))
        axes = sorted(rng.sample(range(len(shape)), 2))
        ents_np, ents_da = [], []
        kinds = []
        for j, d in enumerate(shape):
            if j in axes:
                zero_d = j == axes[0] or rng.random() < 0.5
                if zero_d:
                    v = np.array(rng.randrange(-d, d), dtype=int)
                    ents_np.append(v)
                    ents_da.append(da.from_array(v, chunks=()))
                    kinds.append("0d")
                else:
                    n = rng.randint(1, 4)
                    v = np.array([rng.randrange(-d, d) for _ in range(n)], dtype=int)
                    ents_np.append(v)
                    ents_da.append(da.from_array(v, chunks=(rand_chunks_axis(rng, n) if rng.random() < 0.5 else (n,),)))
                    kinds.append("1d")
            else:
                e = rng.choice([slice(None), slice(None), slice(1, None), rng.randrange(-d, d)])
                ents_np.append(e)
                ents_da.append(e)
        a = base_array(shape)
        x = impl.arr(a, chunks)
        want, werr = np_eval(lambda: a[tuple(ents_np)])
        got, gerr = da_eval(lambda: x[tuple(ents_da)])
        data = {"fn": "dask-int-multi", "shape": shape, "chunks": chunks, "index": idx_repr(tuple(ents_np)), "kinds": kinds}
        chk.count("dask-int-multi:" + "+".join(kinds))
        chk.case(("dask-int-multi", k, shape, chunks, idx_repr(tuple(ents_np))), nontrivial=werr is None, sample=data if k < 3 else None)
        judge(chk, "dask-int", data, got, gerr, want, werr, a=a, idx=tuple(int(e) if isinstance(e, np.ndarray) and e.ndim == 0 else e for e in ents_np),
              allow_raise=((AssertionError, ""), (ValueError, ""), (IndexError, "")) if kinds.count("1d") > 1 else (),
              extra_sig={"multi": True})


def fam_basic(chk, impl, tier):
    rng = chk.rng
    R = BasicRunner(chk, impl)
    # corpus: the repaired findings F8 and F12 must pass
    R.normalize(slice(-7, None, -1), (5,))
    R.getitem(slice(-7, None, -1), (5,), ((2, 2, 1),))
    R.getitem(slice(None, None, -1), (2,), ((1, 0, 1),))
    R.getitem(slice(2, None, -1), (4,), ((2, 0, 2),))
    R.getitem((None, slice(1, 3), Ellipsis, None), (4, 6), ((2, 0, 2), (3, 3)))
    R.getitem((1, None, slice(None, None, -2)), (4, 6), ((2, 0, 2), (3, 3)))
    R.getitem((Ellipsis, Ellipsis), (4, 6), ((2, 2), (3, 3)))
    R.getitem((), (), ())
    R.getitem((None, Ellipsis), (), ())
    R.getitem(0, (), ())

    # (i) exhaustive 1-D
    nmax = 6 if tier == "thorough" else 4
    for n in range(0, nmax + 1):
        raws = list(all_slices(n, 3)) + list(range(-n - 2, n + 3)) + [slice(None, None, 0), slice(1, None, 0)]
        groups = {}
        for raw in raws:
            out = R.normalize(raw, (n,))
            groups.setdefault(idx_repr(out) if not isinstance(out, str) else out, raw)
        chk.count("exhaustive-1d:raw", len(raws))
        for cs in chunkings_1d(n, tier):
            for raw in groups.values():
                R.getitem(raw, (n,), (cs,))
                chk.count("exhaustive-1d:getitem")

    # (ii) random N-D
    dims = [0, 1, 2, 3, 4, 5, 6]
    for _ in range(12000 if tier == "thorough" else 900):
        rank = rng.choice([1, 2, 2, 3, 3])
        shape = tuple(rng.choice(dims) for _ in range(rank))
        chunks = tuple(rand_chunks_axis(rng, d) for d in shape)
        idx = rand_basic_index(rng, shape)
        R.normalize(idx, shape)
        R.getitem(idx, shape, chunks)
    R.flush()


# ---------------------------------------------------------------------------
# fancy paths: by value only
def outer_oracle(a, idx):
    """Orthogonal ("outer") reading of an index with ints, slices, None and ONE list:
    what dask documents; equals NumPy unless NumPy's advanced-index transposition applies."""
    t = list(as_tuple(idx))
    pos = [i for i, e in enumerate(t) if isinstance(e, (list, np.ndarray))]
    if len(pos) != 1:
        return None
    p = pos[0]
    lst = np.asarray(t[p])
    t2 = list(t)
    t2[p] = slice(None)
    try:
        b = a[tuple(t2)]
    except Exception:  # noqa: BLE001
        return None
    # axis of b that position p maps to
    t_exp = t2
    if Ellipsis in t_exp:
        k = t_exp.index(Ellipsis)
        nreal = sum(1 for e in t_exp if e is not None and e is not Ellipsis)
        t_exp = t_exp[:k] + [slice(None)] * (a.ndim - nreal) + t_exp[k + 1:]
        p = p if p < k else p + (a.ndim - nreal) - 1
    ax = sum(1 for e in t_exp[:p] if not isinstance(e, Integral))
    try:
        if lst.dtype == bool:
            lst = np.nonzero(lst)[0]
        return np.take(b, lst.astype(int), axis=ax) if lst.size else np.take(b, np.array([], dtype=int), axis=ax)
    except Exception:  # noqa: BLE001
        return None


def norm_err(e):
    """exception -> short stable string (digits and hash tokens removed)"""
    import re
    m = str(e)
    m = re.sub(r"-[0-9a-f]{16,}", "-<tok>", m)
    m = re.sub(r"\d+", "#", m)
    return type(e).__name__ + ": " + m[:44]


def judge(chk, path, data, got, gerr, want, werr, *, a=None, idx=None, allow_raise=(), extra_sig=None):
    """Common verdict for the by-value families."""
    sig = {"path": path}
    if extra_sig:
        sig.update(extra_sig)
    if werr is not None:
        if gerr is None:
            chk.violation(f"{path}: returns data for an index NumPy rejects", {**data, "numpy": repr(werr)[:160], "got_shape": got.shape},
                          signature={**sig, "class": "accepts-invalid"})
        else:
            chk.count(f"{path}:both-raise")
        return
    if gerr is not None:
        if isinstance(gerr, NotImplementedError):
            chk.count(f"{path}:declined-NotImplemented")
            return
        if any(isinstance(gerr, k) and (s in str(gerr)) for k, s in allow_raise):
            chk.count(f"{path}:declined")
            return
        chk.violation(f"{path}: raises for a supported index", {**data, "impl": repr(gerr)[:200]},
                      signature={**sig, "class": "raises", "error": norm_err(gerr)})
        return
    if same(got, want):
        chk.traces_validated += 1
        return
    cls = "wrong-value"
    if a is not None and idx is not None:
        o = outer_oracle(a, idx)
        if o is not None and o.shape == got.shape and np.array_equal(o, got):
            cls = "outer-not-numpy-axis-order"
    chk.violation(f"{path}: result differs from NumPy", {**data, "want_shape": want.shape, "got_shape": got.shape,
                                                          "want": want.tolist(), "got": got.tolist()},
                  signature={**sig, "class": cls})


def rand_shape_chunks(rng, ranks=(1, 2, 2, 3), dims=(0, 1, 2, 3, 4, 5, 6)):
    shape = tuple(rng.choice(dims) for _ in range(rng.choice(ranks)))
    return shape, tuple(rand_chunks_axis(rng, d) for d in shape)


def other_entry(rng, d, allow_int=True):
    r = rng.random()
    if r < 0.45:
        return slice(None)
    if r < 0.65 and allow_int and d > 0:
        return rng.randint(-d, d - 1)
    return rand_slice(rng, d)



# ---------------------------------------------------------------------------
# one-dimensional integer list along one axis: the Shuffle ("take") layer read back and tied to TakeModel.v
TAKE_HEADER = ("From DA Require Import PyBase Transfer2 TakeModel.\nFrom Coq Require Import List.\nImport ListNotations.\n"
               "Open Scope Z_scope.\n")
TAKE_DEF = """
Inductive tobs := TOErr | TOEmpty (oc : list Z) | TOSelf (oc : list Z)
  | TOShuffle (index : list Z) (indexer nc : list (list Z)) (oc : list Z)
              (plan : list (list (Z * Z))) (splits : list (list (Z * list Z))).
Definition oc_ok (chunks idx oc : list Z) : bool :=
  match take_out_chunks chunks idx with Some m => zlist_eqb m oc | None => false end.
Definition chk (c : list Z * list Z * tobs) : bool :=
  let '(chunks, idx, o) := c in
  match take_route_of chunks idx, o with
  | TRError, TOErr => true
  | TREmptySlice, TOEmpty oc => oc_ok chunks idx oc
  | TRIdentity, TOSelf oc => oc_ok chunks idx oc
  | TRShuffle index indexer nc, TOShuffle index' indexer' nc' oc plan splits =>
      zlist_eqb index index' && zlist2_eqb indexer indexer' && zlist2_eqb nc nc' && oc_ok chunks idx oc &&
      match take_plan chunks idx with Some p => list_eqb (list_eqb pair_eqb) p plan | None => false end &&
      match take_splits chunks idx with Some s => list_eqb (list_eqb split_eqb) s splits | None => false end &&
      forallb (forallb (pair_ok_b chunks)) plan
  | _, _ => false
  end.
"""
TAKE_TYPE = "list Z * list Z * tobs"


def find_nodes(expr, cls):
    from dask_array._expr import ArrayExpr
    out, seen, stack = [], set(), [expr]
    while stack:
        e = stack.pop()
        if id(e) in seen:
            continue
        seen.add(id(e))
        if isinstance(e, cls):
            out.append(e)
        stack.extend(d for d in e.dependencies() if isinstance(d, ArrayExpr))
    return out


def interpret_take_layer(impl, sh):
    """Read the plan of a Shuffle node back from its ._layer(): for every output block number k along the axis
    (checked identical for every block of the other axes, whose key coordinates must be copied unchanged)
      splits[k] = [(input block, [local offsets]) per split task, in merge order]
      pairs[k]  = [(input block, local offset) per OUTPUT element, in output order]
    Returns (pairs, splits, problems, number of unused sorter nodes)."""
    from dask_array._shuffle import _getitem, concatenate_arrays
    axis = sh.axis
    in_chunks = sh.array.chunks
    in_name = sh.array._name
    L = sh._layer()
    nout = len(sh.chunks[axis])
    others = [range(len(c)) for i, c in enumerate(in_chunks) if i != axis]
    problems = []
    used = set()

    def split_of(key, okey):
        t = L.get(key)
        if t is None or getattr(t, "func", None) is not _getitem:
            problems.append(f"{key!r}: not a _getitem split task")
            return None
        used.add(key)
        bkey = t.args[0].key
        tk = t.args[1].key
        node = L.get(tk)
        if node is None or not hasattr(node, "value"):
            problems.append(f"taker {tk!r} missing")
            return None
        used.add(tk)
        sl = node.value[1]
        if bkey[0] != in_name or len(bkey) != len(in_chunks) + 1 or len(sl) != len(in_chunks):
            problems.append(f"split {key!r} reads {bkey!r} with {sl!r}")
            return None
        rest = tuple(int(v) for i, v in enumerate(bkey[1:]) if i != axis)
        if rest != okey:
            problems.append(f"split {key!r}: other-axis coordinates {rest} != output's {okey}")
        if any(not (isinstance(e, slice) and e == slice(None)) for i, e in enumerate(sl) if i != axis):
            problems.append(f"split {key!r}: non-trivial index on another axis: {sl!r}")
        return int(bkey[1 + axis]), [int(v) for v in np.asarray(sl[axis]).tolist()]

    pairs_all, splits_all = [], []
    for k in range(nout):
        ref = None
        for okey in itertools.product(*others):
            okey = tuple(int(v) for v in okey)
            full = list(okey)
            full.insert(axis, k)
            key = (sh._name, *full)
            t = L.get(key)
            if t is None:
                problems.append(f"output key {key!r} missing")
                continue
            used.add(key)
            f = getattr(t, "func", None)
            if f is concatenate_arrays:
                refs = [r.key for r in t.args[0].args]
                sk = t.args[1].key
                used.add(sk)
                sorter = np.asarray(L[sk].value[1])
                if int(t.args[2]) != axis:
                    problems.append(f"{key!r}: merges along axis {t.args[2]} != {axis}")
                sp = [split_of(r, okey) for r in refs]
                if any(x is None for x in sp):
                    continue
                cat = [(b, o) for b, offs in sp for o in offs]
                if sorted(sorter.tolist()) != list(range(len(cat))):
                    problems.append(f"{key!r}: sorter {sorter.tolist()} is not a permutation of the {len(cat)} merged elements")
                    continue
                inv = np.argsort(sorter)          # what concatenate_arrays applies
                pr = [cat[int(j)] for j in inv]
            elif f is _getitem:
                one = split_of(key, okey)
                if one is None:
                    continue
                sp = [one]
                pr = [(one[0], o) for o in one[1]]
            else:
                problems.append(f"output key {key!r}: unexpected task {t!r}")
                continue
            if ref is None:
                ref = (pr, sp)
            elif ref != (pr, sp):
                problems.append(f"output block {k}: the plan differs between blocks of the other axes")
        if ref is None:
            ref = ([], [])
        pairs_all.append(ref[0])
        splits_all.append(ref[1])
    extra = [k for k in L if k not in used]
    # a sorter DataNode is emitted for every output chunk, also when a single source block is read directly (no merge
    # task refers to it): harmless orphan, culled before execution
    orphans = [k for k in extra if isinstance(k, str) and k.startswith("shuffle-sorter-")]
    extra = [k for k in extra if k not in orphans]
    if extra:
        problems.append(f"{len(extra)} layer keys are not used by any output block, e.g. {extra[0]!r}")
    return pairs_all, splits_all, problems, len(orphans)


class TakeRunner:
    """x[..., list, ...] / da.take: real node + layer vs TakeModel.v (one Coq batch at the end)."""

    def __init__(self, chk, impl):
        from dask_array._shuffle import Shuffle
        self.chk, self.impl, self.Shuffle = chk, impl, Shuffle
        self.cases, self.inputs = [], []

    def observe(self, a, x, idx, lst_pos, build, data):
        """idx: index tuple (one 1-D int list/ndarray at position lst_pos, ints/slices/None elsewhere, all valid);
        build(): the dask expression-building call.  Records one model case; by-hand value check."""
        chk, impl = self.chk, self.impl
        t = as_tuple(idx)
        lst = [int(v) for v in np.asarray(t[lst_pos]).tolist()]
        # the array axis the list indexes, and the chunks the take sees
        in_ax = sum(1 for e in t[:lst_pos] if e is not None)
        chunks_ax = tuple(int(c) for c in x.chunks[in_ax])
        with warnings.catch_warnings():
            warnings.simplefilter("ignore")
            try:
                y, yerr = build(), None
            except Exception as e:  # noqa: BLE001
                y, yerr = None, e
        if yerr is not None:
            if isinstance(yerr, IndexError):
                chk.count("take-tie:IndexError")
                self._add(chunks_ax, lst, "TOErr", data)
            else:
                chk.count("take-tie:skipped-raises-" + type(yerr).__name__)
            return
        out_ax = sum(1 for e in t[:lst_pos] if not isinstance(e, Integral))   # axis of y the list became
        oc = tuple(int(c) for c in y.chunks[out_ax])
        if y is x or y.expr is x.expr:
            chk.count("take-tie:identity")
            self._add(chunks_ax, lst, f"(TOSelf {clist(oc)})", data)
            return
        if not lst:
            chk.count("take-tie:empty")
            if find_nodes(y.expr, self.Shuffle):
                chk.tie_break("correspondence:take-node", {**data, "why": "empty list built a Shuffle"})
            self._add(chunks_ax, lst, f"(TOEmpty {clist(oc)})", data)
            return
        raw = find_nodes(y.expr, self.Shuffle)
        if not raw:
            # take() returned its input (the basic-sliced array in the mixed case): the identity route
            chk.count("take-tie:identity(after basic slicing)")
            self._add(chunks_ax, lst, f"(TOSelf {clist(oc)})", data)
            return
        if len(raw) != 1:
            chk.tie_break("correspondence:take-node", {**data, "why": f"{len(raw)} Shuffle nodes", "expr": type(y.expr).__name__})
            return
        sh = raw[0]
        with warnings.catch_warnings():
            warnings.simplefilter("ignore")
            try:
                low = find_nodes(y.expr.simplify().lower_completely(), self.Shuffle)
            except Exception:  # noqa: BLE001
                low = []
        if len(low) == 1 and low[0].axis == sh.axis and low[0].array.chunks[low[0].axis] == sh.array.chunks[sh.axis] \
                and low[0].indexer == sh.indexer:
            sh = low[0]
            chk.count("take-tie:lowered-node")
        else:
            chk.count("take-tie:raw-node(lowering rewrote the shuffle)")
        ax = sh.axis
        in_chunks = tuple(int(c) for c in sh.array.chunks[ax])
        if in_chunks != chunks_ax:
            chk.count("take-tie:input-chunks-differ-from-x")
        pairs, splits, problems, orphans = interpret_take_layer(impl, sh)
        if orphans:
            chk.count("take-tie:layer-has-unused-sorter-node")
        sig = {"path": "list", "class": "take-layer"}
        # by hand, independent of the model: bounds, sizes, positions
        adv = tuple(int(c) for c in sh.chunks[ax])
        if adv != oc:
            problems.append(f"Shuffle.chunks[axis] {adv} != chunks of the result {oc}")
        if tuple(len(p) for p in pairs) != adv:
            problems.append(f"blocks produce {tuple(len(p) for p in pairs)} elements, advertised {adv}")
        offs = np.concatenate([[0], np.cumsum(in_chunks)]).astype(int)
        bad = [(b, o) for p in pairs for b, o in p if not (0 <= b < len(in_chunks) and 0 <= o < in_chunks[b])]
        if bad:
            problems.append(f"pairs outside their input block: {bad[:3]}")
        else:
            d = int(sum(in_chunks))
            pos = [int(offs[b] + o) for p in pairs for b, o in p]
            want_pos = [v + d if v < 0 else v for v in lst]
            if pos != want_pos:
                problems.append(f"the plan reads positions {pos[:12]} != NumPy's {want_pos[:12]}")
            else:
                # values: the input of the take is a[basic part]; read it through the plan
                t2 = tuple(slice(None) if i == lst_pos else e for i, e in enumerate(t) if e is not None)
                a_in = a[t2]
                blocks = [np.take(a_in, np.arange(offs[b], offs[b + 1]), axis=ax) for b in range(len(in_chunks))]
                pieces = [np.stack([np.take(blocks[b], o, axis=ax) for b, o in p], axis=ax) if p else
                          np.take(a_in, [], axis=ax) for p in pairs]
                hand = np.concatenate(pieces, axis=ax)
                want = outer_oracle(a, tuple(e for e in t if e is not None))
                if want is not None and not same(hand, want):
                    problems.append("the plan interpreted on NumPy blocks differs from NumPy's outer indexing")
        if problems:
            chk.violation("Shuffle layer of a list index: " + "; ".join(problems[:3]), {**data, "in_chunks": in_chunks},
                          signature=sig)
        nidx = self._norm(t, a.shape, lst_pos)
        lit = ("(TOShuffle " + clist(nidx) + " " + clist(sh.indexer, clist) + " " + clist(sh._new_chunks, clist) + " " +
               clist(adv) + " " + clist(pairs, lambda p: clist(p, lambda e: ctuple(cz(e[0]), cz(e[1])))) + " " +
               clist(splits, lambda sp: clist(sp, lambda e: ctuple(cz(e[0]), clist(e[1])))) + ")")
        chk.count("take-tie:shuffle" + (":multi-source" if any(len(sp) > 1 for sp in splits) else ""))
        self._add(in_chunks, lst, lit, data)

    def _norm(self, t, shape, lst_pos):
        try:
            out = self.impl.normalize_index(t, shape)
            return [int(v) for v in np.asarray(out[lst_pos]).tolist()]
        except Exception:  # noqa: BLE001
            return []

    def _add(self, chunks_ax, lst, lit, data):
        self.cases.append(ctuple(clist(chunks_ax), clist(lst), lit))
        self.inputs.append((chunks_ax, lst, lit, data))

    def flush(self):
        chk = self.chk
        mism, _ = coq_eval_cases(TAKE_HEADER, TAKE_TYPE, TAKE_DEF, self.cases, chunk=400)
        for i in mism[:5]:
            chunks_ax, lst, lit, data = self.inputs[i]
            c, l = clist(chunks_ax), clist(lst)
            model = coq_eval_expr(TAKE_HEADER, [f"take_route_of {c} {l}", f"take_out_chunks {c} {l}", f"take_plan {c} {l}",
                                                f"take_splits {c} {l}"])
            chk.tie_break("correspondence:take-plan", {**data, "axis_chunks": chunks_ax, "list": lst, "impl": lit[:1500], "model": model})
        chk.traces_validated += len(self.cases) - len(mism)


def rand_take_list(rng, d, chunks_ax):
    """index list along an axis of length d: sorted / unsorted / repeated / negative / out of range / identity / long"""
    mode = rng.choice(["unsorted", "unsorted", "sorted", "repeated", "negative", "oob", "identity", "near-identity",
                       "long", "one-block", "runs", "empty"])
    if d == 0 and mode not in ("oob", "empty"):
        mode = rng.choice(["oob", "empty"])
    if mode == "empty":
        return mode, []
    if mode == "oob":
        k = rng.randint(1, 5)
        lst = [rng.randint(-d, d - 1) for _ in range(k)] if d else []
        lst.insert(rng.randint(0, len(lst)), rng.choice([d, d + 1, -d - 1, -d - 2, 3 * d + 1]))
        return mode, lst
    if mode == "identity":
        return mode, list(range(d)) if rng.random() < 0.7 else [v - d for v in range(d)]
    if mode == "near-identity":
        lst = list(range(d))
        r = rng.random()
        if r < 0.4 and d > 1:
            i, j = rng.sample(range(d), 2)
            lst[i], lst[j] = lst[j], lst[i]
        elif r < 0.7:
            lst = lst[:-1] if rng.random() < 0.5 else lst + [rng.randrange(d)]
        else:
            lst = lst[::-1]
        return mode, lst
    if mode == "long":
        k = rng.randint(d + 1, 3 * d + 8)
        lst = [rng.randrange(d) for _ in range(k)]
        if rng.random() < 0.3:
            lst.sort()
        return mode, lst
    if mode == "one-block":
        nz = [b for b, c in enumerate(chunks_ax) if c > 0]
        b = rng.choice(nz)
        lo = sum(chunks_ax[:b])
        return mode, [rng.randrange(lo, lo + chunks_ax[b]) for _ in range(rng.randint(1, 2 * chunks_ax[b] + 2))]
    if mode == "runs":                      # np.repeat-like: long runs inside one chunk, then the next
        lst = []
        for _ in range(rng.randint(1, 4)):
            v = rng.randrange(d)
            lst += [v] * rng.randint(1, 5)
        return mode, lst
    k = rng.randint(1, min(12, 2 * d + 1))
    if mode == "repeated":
        pool = [rng.randrange(d) for _ in range(rng.randint(1, 2))]
        return mode, [rng.choice(pool) for _ in range(k)]
    if mode == "negative":
        return mode, [rng.randint(-d, d - 1) if rng.random() < 0.5 else rng.randint(-d, -1) for _ in range(k)]
    lst = [rng.randrange(d) for _ in range(k)]
    if mode == "sorted":
        lst.sort()
    return mode, lst


def fam_take_plan(chk, impl, tier, T):
    """generated (chunks, index list, axis) cases for the take/Shuffle tie; values by hand and (sampled) by compute()"""
    import random as _random
    rng = _random.Random(f"C12-take-{chk.seed}")
    da = impl.da

    def one(shape, chunks, ax, lst, how, mode, compute):
        a = base_array(shape)
        x = impl.arr(a, chunks)
        arr = np.array(lst, dtype=int) if how != "list" else list(lst)
        if how == "take":
            idx = (slice(None),) * ax + (arr,)
            build = lambda: da.take(x, arr, axis=ax)                     # noqa: E731
            npf = lambda: np.take(a, np.array(lst, dtype=int), axis=ax)  # noqa: E731
            if a.size == 0:
                # np.take skips the bounds check when the array has no element (np.take(np.zeros((0, 3)), [5], axis=1)
                # has shape (0, 1)) while a[:, [5]] raises; dask_array raises in both: the getitem reading is the oracle
                npf = lambda: a[idx]                                     # noqa: E731
                chk.count("take:oracle=getitem(empty array: np.take skips the bounds check)")
        else:
            idx = (slice(None),) * ax + (arr,)
            build = lambda: x[idx]                                       # noqa: E731
            npf = lambda: a[idx]                                         # noqa: E731
        data = {"fn": "take-plan", "shape": shape, "chunks": chunks, "axis": ax, "list": list(lst), "how": how, "mode": mode}
        chk.count(f"take:{mode}")
        chk.count(f"take:how={how}")
        chk.case(("take", shape, chunks, ax, tuple(lst), how), nontrivial=bool(lst) and all(-shape[ax] <= v < shape[ax] for v in lst),
                 sample=data)
        T.observe(a, x, idx, ax, build, data)
        if compute:
            want, werr = np_eval(npf)
            got, gerr = da_eval(build)
            judge(chk, "list", data, got, gerr, want, werr)

    # corpus
    one((10,), ((3, 4, 3),), 0, [3, 0, 3, 5, 9, 9, 1, -1], "list", "corpus", True)
    one((2,), ((2,),), 0, [0, 0, 0, 0, 0], "list", "corpus", True)          # one run longer than the limit: split 2,2,1
    one((3,), ((2, 0, 1),), 0, [2, 0, -1, 0], "ndarray", "corpus", True)
    one((3,), ((2, 0, 1),), 0, [0, 1, 2], "take", "corpus", True)            # identity with a zero-size chunk
    one((4, 3), ((1, 1, 2), (3,)), 0, [0, 1, 2, 3], "list", "corpus", True)  # identity
    one((4, 3), ((1, 1, 2), (3,)), 0, [0, 1, 3, 2], "list", "corpus", True)  # groups [0],[1],[3,2] merged to (2, 2)
    one((3,), ((2, 1),), 0, [3], "take", "corpus", True)
    one((3,), ((2, 1),), 0, [-4], "list", "corpus", True)

    # exhaustive small scope: every chunking of n (with zero-size variants) x every in-range list over [-n, n-1] up to a
    # length, plus lists with one out-of-range entry and a few long / identity-like ones
    nmax = 5 if tier == "thorough" else 4
    for n in range(1, nmax + 1):
        vals = list(range(-n, n))
        maxlen = 3 if n <= (4 if tier == "thorough" else 3) else 2
        lists = [()]
        for k in range(1, maxlen + 1):
            lists += list(itertools.product(vals, repeat=k))
        for v in (n, -n - 1, n + 1):
            lists += [(v,), (0, v), (v, 0), (-1, v, 0)]
        lists += [tuple(range(n)), tuple(range(n)) + (0,), tuple(reversed(range(n))), (0,) * (n + 2), (n - 1,) * (2 * n + 1),
                  tuple(range(n)) * 2, tuple(v for v in range(n) for _ in range(2)), tuple(range(-n, 0))]
        for cs in chunkings_1d(n, tier):
            for lst in lists:
                one((n,), (cs,), 0, list(lst), "list", "exhaustive", False)

    # random N-d
    N = 8000 if tier == "thorough" else 600
    for k in range(N):
        rank = rng.choice([1, 1, 2, 2, 3])
        shape = tuple(rng.choice([0, 1, 2, 3, 4, 5, 6, 7, 9, 12]) for _ in range(rank))
        chunks = tuple(rand_chunks_axis(rng, dd) for dd in shape)
        ax = rng.randrange(rank)
        if rng.random() < 0.6:
            shape = shape[:ax] + (max(shape[ax], rng.choice([3, 5, 8, 13])),) + shape[ax + 1:]
            chunks = chunks[:ax] + (rand_chunks_axis(rng, shape[ax]),) + chunks[ax + 1:]
        mode, lst = rand_take_list(rng, shape[ax], chunks[ax])
        how = rng.choice(["list", "ndarray", "take"])
        one(shape, chunks, ax, lst, how, mode, compute=(k % 4 == 0))


def fam_list(chk, impl, tier):
    rng = chk.rng
    corpus = [
        ((3, 4, 5), ((2, 1), (2, 2), (3, 2)), (0, slice(None), [0, 1])),       # NumPy transposes; dask does not
        ((3, 4, 5), ((2, 1), (2, 2), (3, 2)), (slice(None), [3, 0], slice(1, 4))),
        ((3,), ((2, 1),), [3]),
        ((3,), ((2, 1),), [-4]),
        ((3,), ((2, 0, 1),), [2, 0, -1, 0]),
    ]
    N = 5000 if tier == "thorough" else 350
    cases = list(corpus)
    while len(cases) < N + len(corpus):
        shape, chunks = rand_shape_chunks(rng)
        ax = rng.randrange(len(shape))
        d = shape[ax]
        r = rng.random()
        if r < 0.12:
            lst = [bool(rng.getrandbits(1)) for _ in range(d if rng.random() < 0.85 else d + 1)]
        elif r < 0.2:
            lst = []
        else:
            k = rng.randint(1, 6)
            if d == 0 or rng.random() < 0.1:
                lst = [rng.randint(-d - 2, d + 1) for _ in range(k)]
            else:
                lst = [rng.randint(-d, d - 1) for _ in range(k)]
            if rng.random() < 0.25:
                lst = sorted(x % d for x in lst) if d else lst
        if rng.random() < 0.4:
            lst = np.array(lst, dtype=bool if (lst and isinstance(lst[0], bool)) else int)
        ents = [other_entry(rng, dd) for dd in shape]
        ents[ax] = lst
        if rng.random() < 0.3:
            ents = ents[: max(ax + 1, rng.randint(0, len(ents)))]
        if rng.random() < 0.15:
            ents.insert(rng.randint(0, len(ents)), None)
        idx = tuple(ents) if (len(ents) > 1 or rng.random() < 0.5) else ents[0]
        cases.append((shape, chunks, idx))
    T = TakeRunner(chk, impl)
    for shape, chunks, idx in cases:
        a = base_array(shape)
        x = impl.arr(a, chunks)
        want, werr = np_eval(lambda: a[idx])
        got, gerr = da_eval(lambda: x[idx])
        t = as_tuple(idx)
        p = [e for e in t if isinstance(e, (list, np.ndarray))][0]
        kind = "bool" if np.asarray(p).dtype == bool and np.asarray(p).size else ("empty" if not np.asarray(p).size else "int")
        chk.count(f"list:{kind}" + (":raises" if werr is not None else ""))
        data = {"fn": "list", "shape": shape, "chunks": chunks, "index": idx_repr(idx)}
        chk.case(("list", shape, chunks, idx_repr(idx)), nontrivial=werr is None, sample=data)
        judge(chk, "list", data, got, gerr, want, werr, a=a, idx=idx)
        if kind != "bool":
            # the other entries of these indices are valid ints / slices / None: an IndexError can only come from the list
            lst_pos = [i for i, e in enumerate(t) if isinstance(e, (list, np.ndarray))][0]
            T.observe(a, x, idx, lst_pos, lambda: x[idx], data)
    fam_take_plan(chk, impl, tier, T)
    T.flush()
    fam_list_nd(chk, impl)


def fam_list_nd(chk, impl):
    """an integer index array with MORE than one dimension on one axis (NumPy: the axis is replaced by the array's
    dimensions): must equal NumPy or be declined with NotImplementedError"""
    cases = [((10,), ((3, 4, 3),), np.array([[1]])),                       # minimal: advertised (1,), computes [[[[3]]]]
             ((10,), ((3, 4, 3),), np.array([[3, 0], [3, 1]])),
             ((10,), ((3, 4, 3),), [[0, 1, 2]]),
             ((6, 10), ((3, 3), (3, 4, 3)), (slice(None), np.array([[3, 0], [3, 1]])))]
    for shape, chunks, idx in cases:
        a = base_array(shape)
        x = impl.arr(a, chunks)
        want, werr = np_eval(lambda: a[idx])
        got, gerr = da_eval(lambda: x[idx])
        data = {"fn": "list", "shape": shape, "chunks": chunks, "index": idx_repr(idx)}
        with warnings.catch_warnings():
            warnings.simplefilter("ignore")
            try:
                data["advertised_shape"] = tuple(int(v) for v in x[idx].shape)
            except Exception as e:  # noqa: BLE001
                data["advertised_shape"] = repr(e)[:80]
        chk.count("list-nd")
        chk.case(("list-nd", shape, chunks, idx_repr(idx)), nontrivial=True, sample=data)
        judge(chk, "list-nd", data, got, gerr, want, werr)


def root_cause(gerr, operands, ravel_of=()):
    """Tag failures whose cause lies below the indexing code.
    operands: (shape, chunks) of every dask operand; ravel_of: arrays a full mask ravels."""
    if gerr is None:
        return None
    for shape, chunks in operands:
        if any(d == 1 and len(c) > 1 for d, c in zip(shape, chunks)):
            # an axis of length 1 chunked (0,1)/(1,0): lowering re-chunks it to (1,) while nodes with a
            # frozen block grid (ChunksOverride, Reshape, unknown-chunk getitem) keep the old one
            return "len1-axis-zero-chunk"
    for arr in ravel_of:
        if arr.ndim > 1:
            _, rerr = da_eval(lambda: arr.ravel())
            if rerr is not None and type(rerr) is type(gerr):
                return "ravel"                       # .ravel() itself fails (zero-size chunks / zero-length axes)
    return None


def fam_bool(chk, impl, tier):
    rng = chk.rng
    da = impl.da
    N = 3000 if tier == "thorough" else 250
    for k in range(N):
        shape, chunks = rand_shape_chunks(rng)
        a = base_array(shape)
        a = (a * 7) % 11
        x = impl.arr(a, chunks)
        mode = rng.choice(["full-np", "full-dask", "full-dask-expr", "axis-np", "axis-dask", "axis-dask-rechunked", "bad-shape"])
        thr = rng.randint(0, 10)
        data = {"fn": "bool", "shape": shape, "chunks": chunks, "mode": mode, "thr": thr}
        operands, ravels = [(shape, chunks)], [x]
        if mode.startswith("full"):
            m = a > thr
            if mode == "full-np":
                f = lambda: x[m]  # noqa: E731
                ravels.append(impl.arr(m, tuple((d,) for d in shape)))
            elif mode == "full-dask":
                mchunks = tuple(rand_chunks_axis(rng, d) for d in shape) if rng.random() < 0.5 else chunks
                data["mask_chunks"] = mchunks
                dm = da.from_array(m, chunks=mchunks)
                operands.append((shape, mchunks))
                ravels.append(dm)
                f = lambda: x[dm]  # noqa: E731
            else:
                f = lambda: x[x > thr]  # noqa: E731
            want, werr = np_eval(lambda: a[m])
        elif mode == "bad-shape":
            ax = rng.randrange(len(shape))
            m = np.ones(shape[ax] + rng.choice([1, 2]), dtype=bool)
            ents = [slice(None)] * len(shape)
            ents[ax] = m
            data["axis"] = ax
            f = lambda: x[tuple(ents)]  # noqa: E731
            want, werr = np_eval(lambda: a[tuple(ents)])
        else:
            ax = rng.randrange(len(shape))
            d = shape[ax]
            m = np.array([bool(rng.getrandbits(1)) for _ in range(d)], dtype=bool)
            ents = [other_entry(rng, dd, allow_int=False) for dd in shape]
            ents_np = list(ents)
            ents_np[ax] = m
            if mode == "axis-np":
                ents[ax] = m
            else:
                mc = chunks[ax] if mode == "axis-dask" else rand_chunks_axis(rng, d)
                data["mask_chunks"] = mc
                operands.append(((d,), (mc,)))
                ents[ax] = da.from_array(m, chunks=(mc,))
            data["axis"] = ax
            data["index"] = idx_repr(tuple(ents_np))
            f = lambda: x[tuple(ents)]  # noqa: E731
            want, werr = np_eval(lambda: a[tuple(ents_np)])
        got, gerr = da_eval(f)
        chk.count("bool:" + mode)
        chk.case(("bool", k, shape, chunks, mode, thr), nontrivial=werr is None and want.size > 0, sample=data)
        judge(chk, "bool", data, got, gerr, want, werr,
              extra_sig={"root": root_cause(gerr, operands, ravels if mode.startswith("full") else ())})


def fam_daskint(chk, impl, tier):
    rng = chk.rng
    da = impl.da
    corpus = [((3, 4), ((2, 1), (2, 2)), 0, [0, 1], (1, 1), "int"),        # x[i, 0]  -> AttributeError (ArrayOffsetDep)
              ((3, 4), ((2, 1), (2, 2)), 1, [0, 1], (1, 1), "negslice")]
    N = 3000 if tier == "thorough" else 250
    for k in range(N + len(corpus)):
        if k < len(corpus):
            shape, chunks, ax, vals, ic, other = corpus[k]
            ents = [slice(None)] * len(shape)
            for j in range(len(shape)):
                if j != ax:
                    ents[j] = 0 if other == "int" else slice(None, None, -1)
            zero_d = False
        else:
            shape, chunks = rand_shape_chunks(rng, dims=(1, 2, 3, 4, 5, 6))
            ax = rng.randrange(len(shape))
            d = shape[ax]
            zero_d = rng.random() < 0.15
            n = 1 if zero_d else rng.randint(1, 5)
            if rng.random() < 0.08:
                vals = [rng.randint(-d - 2, d + 1) for _ in range(n)]
            else:
                vals = [rng.randint(-d, d - 1) for _ in range(n)]
            ic = rand_chunks_axis(rng, n)
            if 0 in ic:
                ic = (n,)
            ents = [other_entry(rng, dd) for dd in shape]
            other = "mixed"
        varr = np.array(vals[0] if zero_d else vals, dtype=int)
        ents_np = list(ents)
        ents_np[ax] = varr
        ents_da = list(ents)
        ents_da[ax] = da.from_array(varr, chunks=() if zero_d else (ic,))
        a = base_array(shape)
        x = impl.arr(a, chunks)
        # NumPy reading: a single integer array with ints/slices = outer indexing unless transposed;
        # use NumPy itself as the oracle.
        want, werr = np_eval(lambda: a[tuple(ents_np)])
        got, gerr = da_eval(lambda: x[tuple(ents_da)])
        has_int = any(isinstance(e, Integral) for j, e in enumerate(ents) if j != ax)
        has_neg = any(isinstance(e, slice) and (e.step or 1) < 0 for e in ents)
        data = {"fn": "dask-int", "shape": shape, "chunks": chunks, "axis": ax, "index": idx_repr(tuple(ents_np)),
                "index_chunks": ic, "zero_d": zero_d}
        chk.count("dask-int" + (":0d" if zero_d else "") + (":raises" if werr is not None else ""))
        chk.case(("dask-int", k, shape, chunks, idx_repr(tuple(ents_np))), nontrivial=werr is None, sample=data)
        judge(chk, "dask-int", data, got, gerr, want, werr, a=a, idx=tuple(ents_np),
              extra_sig={"with_int": has_int, "with_neg_step": has_neg})


def vindex_oracle(a, ents):
    """Documented semantics of .vindex: NumPy point-wise indexing with the broadcast
    dimensions placed FIRST, the sliced axes after them in order."""
    arr_axes = [i for i, e in enumerate(ents) if isinstance(e, (list, np.ndarray))]
    ints = [i for i, e in enumerate(ents) if isinstance(e, Integral)]
    # apply ints and slices first (orthogonally), keeping array axes whole
    first = tuple(slice(None) if i in arr_axes else e for i, e in enumerate(ents))
    b = a[first]
    # axes of b holding the array-indexed dims
    pos = [i - sum(1 for j in ints if j < i) for i in arr_axes]
    b = np.moveaxis(b, pos, range(len(pos)))
    arrs = np.broadcast_arrays(*[np.asarray(ents[i]) for i in arr_axes])
    return b[tuple(arrs)]


def fam_vindex(chk, impl, tier):
    rng = chk.rng
    corpus = [((2, 4, 5), ((2,), (4,), (3, 2)), ([0, 1], [1, 2])),           # raises: flat __dask_keys__
              ((2, 4, 5), ((2,), (2, 2), (5,)), ([0, 1], slice(None), [1, 2])),
              ((3, 4), ((2, 1), (2, 2)), ([0, 1, 2], [1, 2, 3])),
              ((3, 4), ((2, 1), (2, 2)), ([[0], [1]], [1, 2]))]
    N = 3000 if tier == "thorough" else 250
    for k in range(N + len(corpus)):
        if k < len(corpus):
            shape, chunks, ents = corpus[k]
            ents = list(ents)
        else:
            shape, chunks = rand_shape_chunks(rng, ranks=(1, 2, 2, 3, 3), dims=(1, 2, 3, 4, 5))
            rank = len(shape)
            narr = rng.randint(1, rank)
            axes = sorted(rng.sample(range(rank), narr))
            bshape = rng.choice([(1,), (2,), (3,), (4,), (2, 2), (2, 1), (1, 3)])
            ents = []
            for i, d in enumerate(shape):
                if i in axes:
                    sh = bshape
                    if len(bshape) == 2 and rng.random() < 0.5:
                        sh = rng.choice([(bshape[0], 1), (1, bshape[1]), (bshape[1],)])
                    oob = rng.random() < 0.05
                    v = np.array([rng.randint(-d - (2 if oob else 0), d - 1 + (2 if oob else 0)) for _ in range(int(np.prod(sh)))]).reshape(sh)
                    ents.append(v.tolist() if rng.random() < 0.5 else v)
                else:
                    r = rng.random()
                    ents.append(slice(None) if r < 0.6 else (rand_slice(rng, d) if r < 0.85 else rng.randint(-d, d - 1)))
            # trailing full slices may be omitted
            while ents and isinstance(ents[-1], slice) and ents[-1] == slice(None) and rng.random() < 0.5:
                ents.pop()
        a = base_array(shape)
        x = impl.arr(a, chunks)
        full = ents + [slice(None)] * (len(shape) - len(ents))
        want, werr = np_eval(lambda: vindex_oracle(a, full))
        got, gerr = da_eval(lambda: x.vindex[tuple(ents)])
        narr = sum(isinstance(e, (list, np.ndarray)) for e in ents)
        data = {"fn": "vindex", "shape": shape, "chunks": chunks, "index": idx_repr(tuple(ents))}
        chk.count(f"vindex:{narr}-arrays" + (":raises" if werr is not None else ""))
        chk.case(("vindex", k, shape, chunks, idx_repr(tuple(ents))), nontrivial=werr is None, sample=data)
        # is the VIndexArray node (flat __dask_keys__) returned directly, with several blocks in >1-D?
        direct = False
        try:
            with warnings.catch_warnings():
                warnings.simplefilter("ignore")
                y = x.vindex[tuple(ents)]
            direct = type(y.expr).__name__ == "VIndexArray" and y.ndim > 1 and y.npartitions > 1
        except Exception:  # noqa: BLE001
            pass
        judge(chk, "vindex", data, got, gerr, want, werr,
              extra_sig={"arrays": min(narr, 2), "direct_multiblock_vindexarray": direct,
                         "root": root_cause(gerr, [(shape, chunks)])})


def fam_blocks(chk, impl, tier):
    rng = chk.rng
    N = 3000 if tier == "thorough" else 250
    for k in range(N):
        shape, chunks = rand_shape_chunks(rng)
        a = base_array(shape)
        x = impl.arr(a, chunks)
        nb = tuple(len(c) for c in chunks)
        ents = []
        used_list = False
        for n in nb:
            r = rng.random()
            if r < 0.3:
                ents.append(rng.randint(-n, n - 1) if rng.random() < 0.92 else rng.choice([n, -n - 1]))
            elif r < 0.45 and not used_list:
                used_list = True
                lst = [rng.randint(-n, n - 1) for _ in range(rng.randint(1, 3))]
                form = rng.choice(["list", "list", "ndarray", "bool"])
                if form == "ndarray":
                    lst = np.array(lst)
                elif form == "bool":
                    lst = np.array([rng.random() < 0.6 for _ in range(n)])
                    if not lst.any():
                        lst[rng.randrange(n)] = True
                chk.count("blocks:list-form:" + form)
                ents.append(lst)
            elif r < 0.6:
                ents.append(slice(None))
            else:
                ents.append(rand_slice(rng, n))
        if rng.random() < 0.3:
            ents = ents[: rng.randint(0, len(ents))]
        if rng.random() < 0.15 and len(ents) < len(nb):
            ents.insert(rng.randint(0, len(ents)), Ellipsis)
        idx = tuple(ents) if (len(ents) != 1 or rng.random() < 0.5) else ents[0]

        def oracle():
            # selected block numbers per axis, by NumPy indexing of the block grid; ints keep the axis
            t = list(as_tuple(idx))
            if any(e is Ellipsis for e in t):
                j = [i for i, e in enumerate(t) if e is Ellipsis][0]
                t = t[:j] + [slice(None)] * (len(nb) - (len(t) - 1)) + t[j + 1:]
            t = t + [slice(None)] * (len(nb) - len(t))
            if len(t) > len(nb):
                raise IndexError("too many")
            pos = []
            for n, cs, e in zip(nb, chunks, t):
                offs = np.concatenate([[0], np.cumsum(cs)]).astype(int)
                sel = np.arange(n)[e]
                sel = np.atleast_1d(sel)
                pos.append(np.concatenate([np.arange(offs[b], offs[b + 1]) for b in sel] + [np.array([], dtype=int)]).astype(int))
            return a[np.ix_(*pos)] if pos else a
        want, werr = np_eval(oracle)
        got, gerr = da_eval(lambda: x.blocks[idx])
        data = {"fn": "blocks", "shape": shape, "chunks": chunks, "index": idx_repr(idx)}
        chk.count("blocks" + (":raises" if werr is not None else ""))
        chk.case(("blocks", k, shape, chunks, idx_repr(idx)), nontrivial=werr is None, sample=data)
        if werr is None and any(np.atleast_1d(np.arange(n)[e]).size == 0 for n, e in zip(nb, [t for t in as_tuple(idx) if t is not Ellipsis])
                                if not isinstance(e, Integral)) or (werr is None and want.size == 0 and got is None):
            # no block selected along some axis: a dask array cannot have zero blocks on an axis;
            # the implementation raises IndexError or returns an empty array (dtype not preserved)
            chk.count("blocks:empty-selection" + (":raises" if gerr is not None else ""))
            if gerr is None and not same(got, want):
                chk.violation("blocks: a selection of no blocks builds an array with an empty block grid whose computed "
                              "shape/dtype is not that of the (empty) concatenation",
                              {**data, "want_shape": want.shape, "got_shape": got.shape, "want_dtype": str(want.dtype), "got_dtype": str(got.dtype)},
                              signature={"path": "blocks", "class": "empty-selection"})
            continue
        judge(chk, "blocks", data, got, gerr, want, werr)


def fam_blocks_multi_list(chk, impl):
    """`.blocks` with SEVERAL list-like indices (Python lists, integer arrays, boolean arrays in every combination): NumPy would select
    point-wise, which is not a block grid; the implementation documents a refusal (ValueError).  Returning data (e.g. the outer
    product of the two selections) is 'wrong data instead of raising'."""
    a = base_array((6, 8))
    chunks = ((2, 2, 2), (3, 3, 2))
    x = impl.arr(a, chunks)
    forms = {"list": lambda v: list(v), "ndarray": lambda v: np.array(v), "bool": lambda v: np.array([i in [k % 3 for k in v] for i in range(3)])}
    for f0 in forms:
        for f1 in forms:
            for v0, v1 in (([0, 2], [1, 0]), ([1], [2]), ([0, 1], [0, 1]), ([2, 0, 1], [1, 1, 0])):
                idx = (forms[f0](v0), forms[f1](v1))
                got, gerr = da_eval(lambda: x.blocks[idx])
                data = {"fn": "blocks", "shape": (6, 8), "chunks": chunks, "index": idx_repr(idx), "forms": (f0, f1)}
                chk.count(f"blocks-multi-list:{f0}+{f1}")
                chk.case(("blocks-multi-list", f0, f1, repr(v0), repr(v1)), nontrivial=True, sample=data)
                if gerr is not None:
                    chk.traces_validated += 1
                    continue
                # point-wise selection of single blocks is expressible only when it is also the outer product: one block each
                pw = None
                if len(np.atleast_1d(np.arange(3)[idx[0]])) == 1 and len(np.atleast_1d(np.arange(3)[idx[1]])) == 1:
                    b0, b1 = int(np.arange(3)[idx[0]][0]), int(np.arange(3)[idx[1]][0])
                    o0, o1 = np.concatenate([[0], np.cumsum(chunks[0])]), np.concatenate([[0], np.cumsum(chunks[1])])
                    pw = a[o0[b0]:o0[b0 + 1], o1[b1]:o1[b1 + 1]]
                if pw is not None and same(got, pw):
                    chk.traces_validated += 1
                    continue
                chk.violation("blocks: several list-like indices are accepted and data is returned (the outer product of the selections) "
                              "instead of the documented refusal; NumPy semantics on the block grid would select point-wise",
                              {**data, "got_shape": got.shape}, signature={"path": "blocks", "class": "multi-list-accepted", "forms": f"{f0}+{f1}"})


def fam_unknown(chk, impl, tier):
    """Arrays with unknown chunk sizes (after a boolean dask mask): further indexing must
    raise or equal NumPy."""
    rng = chk.rng
    da = impl.da
    corpus = [((5,), ((2, 0, 3),), "full", slice(2, None, -1))]     # F12's original shape
    N = 3000 if tier == "thorough" else 250
    for k in range(N + len(corpus)):
        if k < len(corpus):
            shape, chunks, mode, idx = corpus[k]
            thr = 4
        else:
            shape, chunks = rand_shape_chunks(rng, dims=(1, 2, 3, 4, 5, 6))
            mode = rng.choice(["full", "axis"])
            thr = rng.randint(0, 10)
            idx = None
        a = (base_array(shape) * 7) % 11
        x = impl.arr(a, chunks)
        if mode == "full":
            m = a > thr
            b = a[m]
            mk = lambda: x[x > thr]  # noqa: E731
        else:
            ax = rng.randrange(len(shape))
            m = np.array([bool(rng.getrandbits(1)) for _ in range(shape[ax])], dtype=bool)
            ents = [slice(None)] * len(shape)
            ents[ax] = m
            b = a[tuple(ents)]
            ents_d = list(ents)
            ents_d[ax] = da.from_array(m, chunks=(chunks[ax],))
            mk = lambda: x[tuple(ents_d)]  # noqa: E731
        if idx is None:
            r = rng.random()
            if r < 0.75:
                idx = rand_basic_index(rng, b.shape)
            else:
                ax2 = rng.randrange(b.ndim)
                d = b.shape[ax2]
                e2 = [slice(None)] * b.ndim
                e2[ax2] = [rng.randint(-d, d - 1) for _ in range(rng.randint(1, 3))] if d else []
                idx = tuple(e2)
        want, werr = np_eval(lambda: b[idx])
        got, gerr = da_eval(lambda: mk()[idx])
        data = {"fn": "unknown-chunks", "shape": shape, "chunks": chunks, "mode": mode, "thr": thr,
                "mask": m.astype(int).tolist() if mode == "axis" else None, "index": idx_repr(idx)}
        chk.count("unknown:" + mode + (":declined" if gerr is not None and werr is None else ""))
        chk.case(("unknown", k, shape, chunks, mode, thr, idx_repr(idx)), nontrivial=werr is None, sample=data)
        judge(chk, "unknown", data, got, gerr, want, werr, a=b, idx=idx,
              allow_raise=[(ValueError, "unknown")],
              extra_sig={"root": root_cause(gerr, [(shape, chunks)], [x] if mode == "full" else ())})


def fam_scalar_bool(chk, impl):
    """A scalar bool is a NumPy mask (adds an axis); normalize_index reads it as the integer 0/1."""
    a = base_array((4, 6))
    x = impl.arr(a, ((2, 2), (3, 3)))
    for idx in [True, False, (slice(None), True)]:
        want, werr = np_eval(lambda: a[idx])
        got, gerr = da_eval(lambda: x[idx])
        data = {"fn": "scalar-bool", "shape": (4, 6), "chunks": ((2, 2), (3, 3)), "index": idx_repr(idx)}
        chk.count("scalar-bool")
        chk.case(("scalar-bool", idx_repr(idx)), nontrivial=True, sample=data)
        if gerr is None and werr is None and not same(got, want):
            chk.violation("a scalar boolean index is read as the integer 0/1 instead of NumPy's mask semantics (or raising)",
                          {**data, "want_shape": want.shape, "got_shape": got.shape},
                          signature={"path": "basic", "class": "scalar-bool-as-int"})


def fam_element_kinds(chk, impl):
    """One-element indices of every kind NumPy distinguishes (Python / NumPy ints, integral and fractional floats, 0-d arrays of
    int / float / bool dtype, 0-d dask arrays of int / float dtype, 1-element dask arrays, strings, complex): NumPy is the oracle
    for accept / reject and for the value.  A 0-d dask INTEGER index is the only kind without a NumPy counterpart: the oracle is
    the same index computed first."""
    import dask_array as da
    a = base_array((5, 4))
    chunks = ((2, 3), (1, 3))
    x = impl.arr(a, chunks)
    kinds = [("int", 2), ("neg-int", -1), ("np.int64", np.int64(3)), ("np.uint8", np.uint8(1)), ("np.int8-neg", np.int8(-2)),
             ("float-integral", 2.0), ("float-fractional", 1.5), ("np.float64-integral", np.float64(1.0)),
             ("0d-int-array", np.array(3)), ("0d-float-array", np.array(2.0)), ("0d-float-fractional-array", np.array(2.5)),
             ("complex", 1 + 0j), ("str", "1"), ("out-of-range", 5), ("neg-out-of-range", -6),
             ("1-elem-int-array", np.array([2])), ("1-elem-float-array", np.array([2.0])), ("float-list", [1.0, 2.0]),
             ("dask-0d-int", "dask:int"), ("dask-0d-float", "dask:float"), ("dask-1elem-float", "dask:float1")]
    for name, k in kinds:
        for pos in (0, 1):
            if isinstance(k, str) and k.startswith("dask:"):
                kd = {"dask:int": lambda: da.from_array(np.array(2), chunks=()), "dask:float": lambda: da.from_array(np.array(2.0), chunks=()),
                      "dask:float1": lambda: da.from_array(np.array([2.0]), chunks=1)}[k]()
                kn = np.asarray(kd.compute(scheduler="sync"))
            else:
                kd = kn = k
            idx_d = (kd,) if pos == 0 else (slice(None), kd)
            idx_n = (kn,) if pos == 0 else (slice(None), kn)
            want, werr = np_eval(lambda: a[idx_n])
            got, gerr = da_eval(lambda: x[idx_d])
            data = {"fn": "element-kinds", "kind": name, "axis": pos, "shape": (5, 4), "chunks": chunks, "index": repr(k)}
            chk.count("element-kind:" + name)
            chk.case(("element-kinds", name, pos), nontrivial=True, sample=data)
            if werr is not None and gerr is None and kd is k and name in ("float-integral", "np.float64-integral", "1-elem-float-array", "float-list"):
                # documented leniency (doctest of sanitize_index: `sanitize_index(1.0) == 1`): a NON-dask float index with integral
                # value(s) is read as the integer(s); what must hold then is NumPy's result for the integer index
                ki = int(k) if not isinstance(k, (list, np.ndarray)) else np.asarray(k).astype(int)
                want_i = a[(ki,) if pos == 0 else (slice(None), ki)]
                if same(got, want_i):
                    chk.count("element-kind:integral-float-read-as-int")
                    chk.traces_validated += 1
                    continue
            judge(chk, "element-kinds", data, got, gerr, want, werr, extra_sig={"kind": name})


# ---------------------------------------------------------------------------
def replay(path):
    r = json.load(open(path))
    print(json.dumps(r, indent=1)[:4000])
    d = r.get("data", {})
    impl = Impl()
    if "index" in d and "shape" in d and d.get("fn") in ("getitem", "list", "normalize_index", "scalar-bool"):
        idx = eval(d["index"], {"slice": slice, "None": None, "Ellipsis": Ellipsis, "np": np})
        shape = tuple(d["shape"])
        a = base_array(shape)
        if d.get("fn") == "normalize_index":
            try:
                print("impl now:", impl.normalize_index(idx, shape))
            except Exception as e:  # noqa: BLE001
                print("impl now raises:", repr(e))
            return
        chunks = tuple(tuple(c) for c in d["chunks"])
        x = impl.arr(a, chunks)
        print("numpy:", np_eval(lambda: a[idx]))
        print("impl now:", da_eval(lambda: x[idx]))
    elif d.get("fn") == "take-plan":
        shape = tuple(d["shape"])
        chunks = tuple(tuple(c) for c in d["chunks"])
        a = base_array(shape)
        x = impl.arr(a, chunks)
        ax, lst = d["axis"], d["list"]
        arr = np.array(lst, dtype=int)
        f = (lambda: impl.da.take(x, arr, axis=ax)) if d.get("how") == "take" else (lambda: x[(slice(None),) * ax + (arr,)])
        print("numpy:", np_eval(lambda: np.take(a, arr, axis=ax)))
        print("impl now:", da_eval(f))
        try:
            y = f()
            for sh in find_nodes(y.expr, __import__("dask_array._shuffle", fromlist=["Shuffle"]).Shuffle):
                print("Shuffle: axis", sh.axis, "input chunks", sh.array.chunks[sh.axis], "indexer", sh.indexer,
                      "_new_chunks", sh._new_chunks, "chunks", sh.chunks[sh.axis])
                print("plan read back from the layer:", interpret_take_layer(impl, sh)[:3])
            c, l = clist(chunks[ax]), clist(lst)
            print("model:", coq_eval_expr(TAKE_HEADER, [f"take_route_of {c} {l}", f"take_out_chunks {c} {l}", f"take_plan {c} {l}",
                                                        f"take_splits {c} {l}"]))
        except Exception as e:  # noqa: BLE001
            print("building raises:", repr(e))
    elif d.get("fn") in ("dask-int", "vindex", "blocks") and "index" in d:
        env = {"slice": slice, "None": None, "Ellipsis": Ellipsis, "np": np}
        idx = eval(d["index"], env)
        shape = tuple(d["shape"])
        chunks = tuple(tuple(c) for c in d["chunks"])
        a = base_array(shape)
        x = impl.arr(a, chunks)
        if d["fn"] == "dask-int":
            ents = list(idx)
            ax = d["axis"]
            ents[ax] = impl.da.from_array(np.asarray(ents[ax]), chunks=() if d.get("zero_d") else (tuple(d["index_chunks"]),))
            print("numpy:", np_eval(lambda: a[idx]))
            print("impl now:", da_eval(lambda: x[tuple(ents)]))
        elif d["fn"] == "vindex":
            full = list(as_tuple(idx)) + [slice(None)] * (len(shape) - len(as_tuple(idx)))
            print("oracle:", np_eval(lambda: vindex_oracle(a, full)))
            print("impl now:", da_eval(lambda: x.vindex[idx]))
        else:
            print("impl now:", da_eval(lambda: x.blocks[idx]))
    else:
        print("(re-run the check to reproduce; inputs are in `data`)")


def run(chk: Check):
    chk.rule = ("basic indices: exhaustive 1-D (every chunking incl. zero-size chunks x every slice with endpoints in "
                "[-n-2, n+2] U None, steps +-1..3 U None, every int incl. out of range; x[idx] is computed once per distinct "
                "normalized index after normalize_index itself was checked on every raw index) + random rank<=3 with None/"
                "Ellipsis/too-many/two-ellipses; every case: normalize_index and the SliceSlicesIntegers/ExpandDims node "
                "(index, axes, .chunks, every key of ._layer()) vs the Gallina model inside Coq, x[idx].compute() and the "
                "hand-interpreted layer vs NumPy; 1-D integer lists / da.take (exhaustive small chunkings x lists over "
                "[-n-1, n] + random sorted/unsorted/repeated/negative/out-of-range/identity/long lists, rank<=3, zero-size "
                "chunks included): route, normalised index, Shuffle.indexer/_new_chunks/.chunks and the plan read back from "
                "the lowered Shuffle._layer() vs TakeModel.v inside Coq, the plan run by hand on NumPy blocks vs NumPy; "
                "other fancy paths (bool masks, dask int arrays, .vindex, .blocks, "
                "unknown chunks) by value vs NumPy; non-trivial = a node was built / NumPy accepts the index")
    chk.assumptions = ["CPython slice.indices/range semantics as transcribed in coq/theories/PyBase.v",
                       "float ceil in new_blockdim is exact for |values| < 2^53",
                       "sanitize_index is the identity on Python ints / int-valued slices (the generator's domain)",
                       "ExpandDims blocks apply np.expand_dims(block, sorted axes); modelled as successive list inserts",
                       "take: np.searchsorted(side='right') on the cumulative chunk sums = PyBase.bisect_right; the split "
                       "tasks' sorted order is modelled by insertion sort (np.argsort's tie order is irrelevant: ties are "
                       "equal indices); blocks are read with NumPy integer-array getitem (chunk.getitem)"]
    chk.trusted_base = ["reading Task.args / Alias.target of dask._task_spec to recover (input key, local slices)",
                        "reading Task.func/.args, List.args, DataNode.value of the Shuffle layer; np.argsort of the sorter "
                        "permutation (as concatenate_arrays applies it) to recover the per-element plan"]
    chk.run_proofs()
    impl = Impl()
    fam_scalar_bool(chk, impl)
    fam_element_kinds(chk, impl)
    fam_basic(chk, impl, chk.tier)
    fam_list(chk, impl, chk.tier)
    fam_bool(chk, impl, chk.tier)
    fam_daskint(chk, impl, chk.tier)
    fam_chained(chk, impl, chk.tier)
    fam_daskint_multi(chk, impl, chk.tier)
    fam_vindex(chk, impl, chk.tier)
    fam_blocks(chk, impl, chk.tier)
    fam_blocks_multi_list(chk, impl)
    fam_unknown(chk, impl, chk.tier)
