"""Child of the C26 check: perform a sequence of actions in a fresh interpreter and report, after each,
which class serves xarray's "dask" chunk manager and what dask_array.xarray.isactive() says."""
import importlib
import json
import sys


def probe():
    out = {}
    if "xarray" in sys.modules:
        from xarray.namedarray.parallelcompat import list_chunkmanagers
        m = list_chunkmanagers().get("dask")
        out["manager"] = type(m).__module__ + "." + type(m).__name__ if m is not None else None
    else:
        out["manager"] = "<xarray not imported>"
    if "dask_array" in sys.modules and hasattr(sys.modules["dask_array"], "xarray"):
        out["isactive"] = bool(sys.modules["dask_array"].xarray.isactive())
    else:
        out["isactive"] = None
    out["impl_loaded"] = "dask_array._xarray" in sys.modules
    return out


def values_suite():
    """xarray operations on registered dask_array-backed objects vs the same objects backed by NumPy"""
    import numpy as np
    import xarray as xr
    import dask_array as da
    rs = np.random.RandomState(3)
    a = rs.rand(4, 6)
    b = rs.rand(6, 4)
    t = rs.rand(6, 5)

    def objs(chunked):
        def wrap(x, dims, chunks):
            return xr.DataArray(da.from_array(x, chunks=chunks) if chunked else x, dims=dims)
        A = wrap(a, ("x", "y"), (2, 3))
        B = wrap(b, ("y", "x"), (3, 2))
        T = wrap(t, ("y", "t"), (2, 5))
        ds = xr.Dataset({"a": A, "b": B})
        return A, B, T, ds

    def demean(v):
        return v - v.mean()

    def plus_meta(obj):
        return obj + 1

    ops = {
        "arith+reduce": lambda A, B, T, ds: ((A + 1).mean("x") * 2),
        "transpose-add": lambda A, B, T, ds: A + B.transpose("x", "y"),
        "broadcast-add": lambda A, B, T, ds: (A + B),
        "where": lambda A, B, T, ds: A.where(A > 0.5, -1.0),
        "isel-slices": lambda A, B, T, ds: A.isel(x=slice(1, 3), y=[0, 2, 5]),
        "cumsum": lambda A, B, T, ds: A.cumsum("y"),
        "diff": lambda A, B, T, ds: A.diff("y"),
        "pad": lambda A, B, T, ds: A.pad(y=(1, 2), mode="edge"),
        "dot": lambda A, B, T, ds: xr.dot(A, T),
        "std": lambda A, B, T, ds: A.std("x", ddof=1),
        "quantile": lambda A, B, T, ds: A.chunk({"x": -1}).quantile(0.5, dim="x") if hasattr(A.data, "dask") or hasattr(A.data, "expr") else A.quantile(0.5, dim="x"),
        "concat": lambda A, B, T, ds: xr.concat([A, A * 2], dim="x"),
        "stack": lambda A, B, T, ds: A.stack(z=("x", "y")),
        "coarsen": lambda A, B, T, ds: A.coarsen(y=2).mean(),
        "dataset-reduce": lambda A, B, T, ds: (ds.mean("x").to_array()),
        "map_blocks-dataarray": lambda A, B, T, ds: xr.map_blocks(plus_meta, A) if hasattr(A.data, "expr") else plus_meta(A),
        "map_blocks-dataset-mixed-dim-order": lambda A, B, T, ds: xr.map_blocks(plus_meta, ds).to_array() if hasattr(A.data, "expr") else plus_meta(ds).to_array(),
        "apply_ufunc-vectorize": lambda A, B, T, ds: xr.apply_ufunc(demean, A.chunk({"y": -1}) if hasattr(A.data, "expr") else A, input_core_dims=[["y"]], output_core_dims=[["y"]], vectorize=True,
                                                                    dask="parallelized", output_dtypes=[float]),
        "apply_ufunc-vectorize-Tcore": lambda A, B, T, ds: xr.apply_ufunc(demean, T.chunk({"t": -1}) if hasattr(T.data, "expr") else T, input_core_dims=[["t"]],
                                                                          output_core_dims=[["t"]], vectorize=True, dask="parallelized", output_dtypes=[float]),
        "apply_ufunc-reduce-core": lambda A, B, T, ds: xr.apply_ufunc(lambda v: v.max(axis=-1), A.chunk({"y": -1}) if hasattr(A.data, "expr") else A, input_core_dims=[["y"]],
                                                                      dask="parallelized", output_dtypes=[float]),
    }
    out = {}
    want_objs, got_objs = objs(False), objs(True)
    for name, f in ops.items():
        try:
            want = f(*want_objs)
            want = np.asarray(want.values)
        except Exception as e:  # noqa: BLE001
            out[name] = {"skipped": "numpy side raises " + type(e).__name__}
            continue
        try:
            got = f(*got_objs)
            lazy = hasattr(getattr(got, "data", None), "expr")
            got = np.asarray(got.compute().values)
            out[name] = {"equal": bool(got.shape == want.shape and np.allclose(got, want, equal_nan=True)), "lazy": bool(lazy)}
        except Exception as e:  # noqa: BLE001
            out[name] = {"error": type(e).__name__ + ": " + str(e)[:120]}
    return out


def main():
    actions = json.loads(sys.argv[1])
    res = []
    for a in actions:
        try:
            if a == "register":
                import dask_array.xarray
                dask_array.xarray.register()
            elif a == "values-suite":
                res.append({"action": a, "suite": values_suite(), **probe()})
                continue
            elif a == "compute":
                import numpy as np
                import xarray as xr
                import dask_array as da
                data = np.arange(24.0).reshape(4, 6)
                d1 = xr.DataArray(da.from_array(data, chunks=(2, 3)), dims=("x", "y"))
                d2 = xr.DataArray(data, dims=("x", "y"))
                r1 = ((d1 + 1).mean("x") * 2).compute().values
                r2 = ((d2 + 1).mean("x") * 2).values
                res.append({"action": a, "equal": bool(np.allclose(r1, r2)), **probe()})
                continue
            else:
                importlib.import_module(a)
            res.append({"action": a, **probe()})
        except Exception as e:  # noqa: BLE001
            res.append({"action": a, "error": type(e).__name__ + ": " + str(e)[:100], **probe()})
    print("C26CHILD " + json.dumps(res))


if __name__ == "__main__":
    main()
