"""Child of the C26 check: perform a sequence of actions in a fresh interpreter and report, after each,
which class serves xarray's "dask" chunk manager and what dask_array.xarray.isactive() says."""
import importlib
import json
import sys


def probe():
    out = {}
    if "xarray" in sys.modules:
        from xarray.namedarray.parallelcompat import list_chunkmanagers
        m = list_chunkmanagers().get("dask")
        out["manager"] = type(m).__module__ + "." + type(m).__name__ if m is not None else None
    else:
        out["manager"] = "<xarray not imported>"
    if "dask_array" in sys.modules and hasattr(sys.modules["dask_array"], "xarray"):
        out["isactive"] = bool(sys.modules["dask_array"].xarray.isactive())
    else:
        out["isactive"] = None
    out["impl_loaded"] = "dask_array._xarray" in sys.modules
    return out


def main():
    actions = json.loads(sys.argv[1])
    res = []
    for a in actions:
        try:
            if a == "register":
                import dask_array.xarray
                dask_array.xarray.register()
            elif a == "compute":
                import numpy as np
                import xarray as xr
                import dask_array as da
                data = np.arange(24.0).reshape(4, 6)
                d1 = xr.DataArray(da.from_array(data, chunks=(2, 3)), dims=("x", "y"))
                d2 = xr.DataArray(data, dims=("x", "y"))
                r1 = ((d1 + 1).mean("x") * 2).compute().values
                r2 = ((d2 + 1).mean("x") * 2).values
                res.append({"action": a, "equal": bool(np.allclose(r1, r2)), **probe()})
                continue
            else:
                importlib.import_module(a)
            res.append({"action": a, **probe()})
        except Exception as e:  # noqa: BLE001
            res.append({"action": a, "error": type(e).__name__ + ": " + str(e)[:100], **probe()})
    print("C26CHILD " + json.dumps(res))


if __name__ == "__main__":
    main()
