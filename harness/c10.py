"""C10 — computation is schedule-independent and never mutates inputs.

The Coq theorem (coq/Properties/C10.v) reduces "for all schedules" to a per-task
premise: every task is a pure function of its dependency values and writes only
buffers it allocated.  This harness observes that premise on the real code for
every task it runs (fingerprints of every dependency value and of every source
array before/after each task; aliasing of results with inputs), and also executes
the graph in several topological orders and with a thread pool."""
from __future__ import annotations

import hashlib
import warnings
from concurrent.futures import ThreadPoolExecutor

import dask
import numpy as np

import progs
from c03 import flat_keys
from c04 import analyse, deps_of
from common import Check


def fp(v):
    if isinstance(v, np.ndarray):
        if v.dtype == object:
            return ("obj", repr(v.tolist())[:100])
        return (str(v.dtype), v.shape, hashlib.sha1(np.ascontiguousarray(v).tobytes()).hexdigest()[:16])
    if isinstance(v, (list, tuple)):
        return tuple(fp(x) for x in v)
    if isinstance(v, dict):
        return tuple(sorted((repr(k), fp(x)) for k, x in v.items()))
    if isinstance(v, (int, float, str, bool, type(None), np.generic)):
        return ("scalar", repr(v))
    return ("opaque", type(v).__name__)


def arrays_in(v, acc=None):
    acc = [] if acc is None else acc
    if isinstance(v, np.ndarray):
        acc.append(v)
    elif isinstance(v, (list, tuple)):
        for x in v:
            arrays_in(x, acc)
    elif isinstance(v, dict):
        for x in v.values():
            arrays_in(x, acc)
    return acc


def topo_orders(dsk, rng, k):
    """k topological orders: Kahn with a differently shuffled ready set each time (+ reversed-priority)"""
    defined = set(dsk)
    out = []
    for variant in range(k):
        indeg = {key: len([d for d in deps_of(n) if d in defined]) for key, n in dsk.items()}
        users = {}
        for key, n in dsk.items():
            for d in deps_of(n):
                users.setdefault(d, []).append(key)
        ready = sorted([key for key, n in indeg.items() if n == 0], key=str)
        order = []
        while ready:
            if variant == 0:
                i = 0
            elif variant == 1:
                i = len(ready) - 1
            else:
                i = rng.randrange(len(ready))
            key = ready.pop(i)
            order.append(key)
            for u in users.get(key, ()):
                indeg[u] -= 1
                if indeg[u] == 0:
                    ready.append(u)
        out.append(order)
    return out


def run_order(dsk, order, watch_sources, observe):
    """execute serially in `order`; returns (cache, list of observed premise violations)"""
    cache, bad = {}, []
    for key in order:
        node = dsk[key]
        ds = [d for d in deps_of(node) if d in cache]
        before = {d: fp(cache[d]) for d in ds} if observe else None
        src_before = [fp(a) for a in watch_sources] if observe else None
        cache[key] = node(cache)
        if observe:
            for d in ds:
                if fp(cache[d]) != before[d]:
                    bad.append(("task-mutated-dependency", repr(key), repr(d)))
            for a, f0 in zip(watch_sources, src_before):
                if fp(a) != f0:
                    bad.append(("task-mutated-source", repr(key), str(a.shape)))
    return cache, bad


def scribble_check(dsk, order, watch_sources, out_keys):
    """The view hazard: after the run, write into every task result in place and see whether a source or an
    output of a DIFFERENT task that does not depend on it changes."""
    cache, _ = run_order(dsk, order, watch_sources, observe=False)
    src_fp = [fp(a) for a in watch_sources]
    hazards = []
    for key in order:
        for arr in arrays_in(cache[key]):
            if not arr.flags.writeable or arr.size == 0 or arr.dtype == object:
                continue
            for a, f0 in zip(watch_sources, src_fp):
                if np.shares_memory(arr, a):
                    hazards.append(("writable-result-aliases-source", repr(key)))
    return hazards


def run_program(chk, da, prog, sources, want, rng):
    for o in progs.ops_in(prog):
        chk.count("op:" + o)
    root = prog[0] if prog[0] != "reduce" else "reduce:" + prog[1]
    run_collection(chk, lambda: progs.build(prog, da, sources, memo={}), progs.describe(prog, sources),
                   ("prog", progs.show(prog), repr([(s[0].shape, s[1]) for s in sources])), root, [s[0] for s in sources], rng)


def run_collection(chk, mk, desc, case_key, root, watch, rng):
    """the property for ONE collection built by mk(); `watch` = the user's source arrays"""
    from dask_array import _materialize
    _materialize._LOWER_CACHE.clear()
    src_copies = [w.copy() for w in watch]
    try:
        with warnings.catch_warnings():
            warnings.simplefilter("ignore")
            arr = mk()
            from dask._task_spec import convert_legacy_graph
            dsk = dict(convert_legacy_graph(dict(arr.__dask_graph__())))
            keys = list(flat_keys(arr.__dask_keys__()))
            ref = arr.compute(scheduler="sync")
    except Exception:  # noqa: BLE001
        chk.count("skipped:raises")
        chk.case(case_key[:2], nontrivial=False)
        return
    problems, _ = analyse(dsk, keys)
    if problems:
        chk.count("skipped:graph-not-closed(C04)")
        return
    chk.case(case_key, nontrivial=len(dsk) > 2,
             sample={**desc, "tasks": len(dsk)} if len(dsk) <= 10 else None)
    orders = topo_orders(dsk, rng, 5)
    results = []
    for oi, order in enumerate(orders):
        chk.count("schedule:serial-order")
        try:
            with warnings.catch_warnings():
                warnings.simplefilter("ignore")
                cache, bad = run_order(dsk, order, watch, observe=True)
        except Exception as e:  # noqa: BLE001
            chk.violation(f"executing the graph in a topological order raises {type(e).__name__}: {str(e)[:100]}", desc,
                          signature={"class": "order-raises", "root_op": root})
            return
        for kind, k, d in bad[:3]:
            chk.violation(f"{kind}: task {k} changed {d}", {**desc, "task": k, "victim": d}, signature={"class": kind, "root_op": root})
        results.append(tuple(fp(cache[k]) for k in keys))
        chk.traces_validated += len(order)
    if len(set(results)) > 1:
        chk.violation("different topological orders produce different block values", desc, signature={"class": "order-dependent", "root_op": root})
    # threads
    chk.count("schedule:threads")
    try:
        with warnings.catch_warnings():
            warnings.simplefilter("ignore")
            with ThreadPoolExecutor(4) as pool:
                got = mk().compute(scheduler="threads", pool=pool)
        ok, why = (True, "") if isinstance(ref, np.ma.MaskedArray) and np.array_equal(np.ma.getmaskarray(got), np.ma.getmaskarray(ref)) and \
            np.array_equal(np.ma.getdata(got)[~np.ma.getmaskarray(got)], np.ma.getdata(ref)[~np.ma.getmaskarray(ref)]) else progs.values_equal(got, ref)
        if not ok:
            chk.violation(f"threaded execution differs from serial ({why})", desc, signature={"class": "threads-differ", "root_op": root})
    except Exception as e:  # noqa: BLE001
        chk.violation(f"threaded execution raises {type(e).__name__}: {str(e)[:100]}", desc, signature={"class": "threads-raise", "root_op": root})
    # sources untouched
    for a, c in zip(watch, src_copies):
        if not np.array_equal(a, c):
            chk.violation("computing modified a source array the user passed in", desc, signature={"class": "source-modified", "root_op": root})
    # view hazard: results handed to later tasks / the user that are writable views of the user's arrays
    hz = scribble_check(dsk, orders[0], watch, keys)
    chk.extra["writable_results_aliasing_sources"] = chk.extra.get("writable_results_aliasing_sources", 0) + len(hz)


def masked_assignment_family(chk, da, rng):
    """assignments whose VALUE (or target) is a masked array: the block kernel of __setitem__ must not write into the block it
    received (a task never modifies its dependencies)"""
    for it in range(200 if chk.tier == "thorough" else 30):
        n, m = rng.choice([6, 9, 12]), rng.choice([3, 4])
        a = np.arange(float(n * m)).reshape(n, m)
        chunks = (progs.rand_chunks_for(rng, n), progs.rand_chunks_for(rng, m))
        kind = rng.choice(["masked-value", "masked-value-into-expr", "masked-target", "np.ma.masked"])
        lo = rng.randrange(0, n - 2)
        hi = rng.randrange(lo + 1, n)

        def mk(kind=kind, lo=lo, hi=hi, a=a, chunks=chunks):
            x = da.from_array(a, chunks=chunks)
            if kind == "masked-value-into-expr":
                x = x * 1.0
            if kind == "masked-target":
                x = da.ma.masked_greater(x, a.mean())
            x = x.copy() if hasattr(x, "copy") else x
            if kind == "np.ma.masked":
                x[lo:hi] = np.ma.masked
            else:
                val = np.ma.masked_array(np.arange(float((hi - lo) * a.shape[1])).reshape(hi - lo, a.shape[1]) + 100,
                                         mask=(np.arange((hi - lo) * a.shape[1]).reshape(hi - lo, a.shape[1]) % 2 == 0))
                x[lo:hi] = val
            return x + 0 if kind != "masked-target" else x
        chk.count("masked-assignment:" + kind)
        run_collection(chk, mk, {"program": f"{kind}: x[{lo}:{hi}] = <masked>; x chunks {chunks}"}, ("masked-assignment", kind, it, lo, hi, repr(chunks)),
                       "setitem-masked", [a], rng)


def run(chk: Check):
    import dask_array as da
    chk.rule = ("generated programs (all ops incl. fused tasks, rechunk splits, in-place sliding-window kernels, setitem-free): the real "
                "task graph is executed task by task in 5 topological orders (sorted, reverse-ready, 3 random) recording, around every "
                "task, fingerprints of all its dependency values and of all user source arrays (premise of the Coq confluence/"
                "non-interference theorems), then with a 4-thread pool; block values of all orders must coincide; non-trivial = more than 2 tasks")
    chk.assumptions = ["true interleavings inside NumPy kernels are not modelled; the per-task premise is observed, not proved about NumPy"]
    chk.run_proofs()
    for _ in range(200 if chk.tier == "thorough" else 20):
        prog, sources, want = progs.arange_fftfreq(chk.rng)
        run_program(chk, da, prog, sources, want, chk.rng)
    import random as _random
    masked_assignment_family(chk, da, _random.Random(f"C10-masked-{chk.seed}"))
    n = 4000 if chk.tier == "thorough" else 200
    for prog, sources, want in progs.gen_programs(chk.rng, n, ops=progs.CORE_OPS + ["swv", "roll", "take", "repeat", "map_overlap"]):
        run_program(chk, da, prog, sources, want, chk.rng)
    import random as _random
    api_rng = _random.Random(f"{chk.pid}-api-family-{chk.seed}")      # own stream: the families above keep theirs
    for prog, sources, want in progs.gen_api_programs(api_rng, 2000 if chk.tier == "thorough" else 180):
        chk.count("api-call:" + next(q[1] for q in progs.all_nodes(prog) if q[0] == "call"))
        run_program(chk, da, prog, sources, want, api_rng)


def replay(path):
    print(open(path).read())
