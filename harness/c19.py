"""C19 — windowed and scan operations match their NumPy definitions.

impl (dask_array.reductions._cumulative / ._sliding_window, dask_array._overlap, public API)
vs the Gallina models (coq/theories/Scan.v, Window.v, evaluated inside Coq) vs the property
itself (NumPy on integer data: exact)."""
from __future__ import annotations

import itertools
import json
import operator
import re
import warnings

import dask
import numpy as np

from common import Check, cbool, clist, copt, coq_eval_cases, coq_eval_expr, ctuple, cz
from c13 import compositions, rand_chunks

HEADER = "From DA Require Import PyBase Scan Window.\nOpen Scope Z_scope.\n"
SW = np.lib.stride_tricks.sliding_window_view

KINDS = ["none", "periodic", "reflect", "nearest", "const"]
NP_PAD = {"periodic": "wrap", "reflect": "symmetric", "nearest": "edge", "const": "constant"}
CONST = 7


def cll(bs):
    return clist(bs, lambda b: clist([int(v) for v in b]))


def ckind(kind):
    return {"none": "BNone", "periodic": "BPeriodic", "reflect": "BReflect", "nearest": "BNearest",
            "const": f"(BConst {cz(CONST)})"}[kind]


def bval(kind):
    return CONST if kind == "const" else kind


def spellings(kind):
    """(name, boundary argument, np.pad keywords) for other ways to write the boundary of a 1-D map_overlap"""
    if kind == "none":
        return []
    if kind == "const":
        out = []
        for v in (CONST, 0, 0.0, False):
            kw = {"mode": "constant", "constant_values": int(v)}
            out += [(f"scalar:{v!r}", v, kw), (f"tuple:{v!r}", (v,), kw), (f"dict:{v!r}", {0: v}, kw)]
        return out
    kw = {"mode": NP_PAD[kind]}
    return [("string", kind, kw), ("tuple", (kind,), kw)]


def stencil_np(p, r, n):
    """the radius-r stencil of `stencil(r)` applied to the padded 1-D array p, for the n original positions"""
    if r == 0:
        return stencil(0)(p)
    full = stencil(r)(p)
    return full[r:r + n]


def norm_err(e):
    s = type(e).__name__ + ": " + str(e).split("\n")[0]
    return re.sub(r"-?\d+", "#", s)[:90]


def data(rng, n, lo=-9, hi=9):
    return np.array([rng.randint(lo, hi) for _ in range(n)], dtype="int64")


def chunkings(rng, n, zero=False):
    """structured random layouts of an axis of length n >= 1"""
    r = rng.random()
    if r < 0.2:
        k = rng.choice([1, 1, 2, 3])
        return tuple([k] * (n // k) + ([n % k] if n % k else []))
    if r < 0.3:
        return (n,)
    if r < 0.45 and n >= 3:   # slivers next to a big block
        a = rng.randint(1, n - 2)
        return tuple([1] * a + [n - a]) if rng.random() < 0.5 else tuple([n - a] + [1] * a)
    return rand_chunks(rng, n, allow_zero=zero)


def real_blocks(arr):
    """the blocks the optimized graph really produces, in key order (1-D)"""
    from dask.local import get_sync
    o = arr.optimize()
    keys = list(o.__dask_keys__())
    return [np.asarray(b) for b in get_sync(o.__dask_graph__(), keys)], o


# =========================================================================================
# cumulative scans
def blelloch_tasks_of_layer(layer, name, nblocks):
    """read the sweeps back from the real task graph: [(level, i, slot of the left operand)] in
    creation order, and for every block >= 1 the word of batch indices its prefix value folds"""
    batch = name + "-batch"
    cur = {i: (batch, i) for i in range(nblocks - 1)}
    tasks = []
    words = {(batch, i): [i] for i in range(nblocks)}
    for key, task in layer.items():
        if isinstance(key, tuple) and key[0] == name and len(key) == 4:
            _, idx, level, i = key
            assert idx == i
            left, right = task[1], task[2]
            slot = [s for s, k in cur.items() if k == left]
            if right != cur[i] or len(slot) != 1:
                return None, None
            tasks.append((level, i, slot[0]))
            words[key] = words[left] + words[right]
            cur[i] = key
    finals = []
    for i in range(1, nblocks):
        t = layer[(name, i)]
        finals.append(words[t[3]])
    return tasks, finals


def fam_scan(chk, da, tier):
    from dask_array.reductions._cumulative import CumReductionBlelloch
    rng = chk.rng
    inputs = []
    # exhaustive small layouts incl. zero-size blocks
    small = [c for n in range(1, 5) for c in compositions(n)]
    zl = []
    for c in small:
        zl.append(c)
        for p in range(len(c) + 1):
            zl.append(c[:p] + (0,) + c[p:])
    zl += [(0,), (0, 0), (0, 3, 0, 0, 2)]
    for c in zl:
        inputs.append(c)
    for _ in range(1500 if tier == "thorough" else 100):
        n = rng.choice([1, 2, 3, 5, 8, 13, 21, 34, 60])
        c = list(chunkings(rng, n, zero=True))
        if rng.random() < 0.3:
            for _ in range(rng.randint(1, 3)):
                c.insert(rng.randrange(len(c) + 1), 0)
        inputs.append(tuple(c))
    for nb in ([2, 3, 4, 5, 6, 7, 8, 9, 10, 11, 12, 13, 15, 16, 17, 18, 24, 31, 32, 33, 47, 48, 49, 60] +
               ([63, 64, 65, 66, 96, 100, 127, 128, 129] if tier == "thorough" else [])):
        inputs.append(tuple([1] * nb))
    cases, kept = [], []
    for c in inputs:
        n = sum(c)
        for fn, opc in (("cumsum", 0), ("cumprod", 1)):
            a = data(rng, n) if fn == "cumsum" else np.array([rng.choice([-2, -1, 1, 1, 1, 2, 3]) for _ in range(n)], dtype="int64")
            if fn == "cumprod" and n > 34:
                a = np.array([rng.choice([-1, 1, 1, 2]) if i % 3 == 0 else rng.choice([-1, 1]) for i in range(n)], dtype="int64")
            want = getattr(np, fn)(a)
            for method in ("sequential", "blelloch"):
                x = da.from_array(a, chunks=(c,))
                key = (fn, method, c, tuple(a.tolist()))
                chk.count(f"scan:{fn}:{method}:" + ("zero-block" if 0 in c else "pos") + (":many-blocks" if len(c) > 8 else ""))
                try:
                    y = getattr(da, fn)(x, axis=0, method=method)
                    blocks, _ = real_blocks(y)
                    got = np.concatenate(blocks) if blocks else np.zeros(0, dtype="int64")
                    err = None
                except Exception as e:  # noqa: BLE001
                    blocks, got, err = None, None, norm_err(e)
                chk.case(key, nontrivial=len(c) > 1, sample={"fn": "da." + fn, "method": method, "chunks": c, "data": a.tolist(),
                                                              "impl": got.tolist() if got is not None else err})
                if err is not None:
                    chk.violation(f"da.{fn}(method={method!r}) raised: {err}", {"fn": fn, "method": method, "chunks": c, "data": a.tolist()},
                                  signature={"fn": fn, "method": method, "class": "raises", "error": err})
                    continue
                if not np.array_equal(got, want):
                    chk.violation(f"da.{fn}(method={method!r}) differs from NumPy", {"fn": fn, "method": method, "chunks": c, "data": a.tolist(),
                                                                                     "impl": got.tolist(), "numpy": want.tolist()},
                                  signature={"fn": fn, "method": method, "class": "wrong-value"})
                if tuple(len(b) for b in blocks) != tuple(c):
                    chk.violation("scan changed the block layout", {"fn": fn, "method": method, "chunks": c, "impl_chunks": [len(b) for b in blocks]},
                                  signature={"fn": fn, "method": method, "class": "layout"})
                in_blocks = np.split(a, np.cumsum(c)[:-1])
                cases.append(ctuple(cbool(method == "blelloch"), cz(opc), cll(in_blocks), cll(blocks)))
                kept.append((fn, method, c, a.tolist(), [b.tolist() for b in blocks]))
    mism, _ = coq_eval_cases(
        HEADER, "bool * Z * list (list Z) * list (list Z)",
        "Definition chk (c : bool * Z * list (list Z) * list (list Z)) : bool := let '(bl, opc, blocks, out) := c in\n"
        "  let op := if opc =? 0 then Z.add else Z.mul in let e := if opc =? 0 then 0 else 1 in\n"
        "  if bl then match cum_blelloch op e blocks with Some o => zlist2_eqb o out | None => false end\n"
        "  else zlist2_eqb (cum_sequential op e blocks) out.",
        cases)
    for i in mism[:5]:
        fn, method, c, a, blocks = kept[i]
        chk.tie_break("correspondence:cum_" + method, {"fn": fn, "chunks": c, "data": a, "impl_blocks": blocks})
    chk.traces_validated += len(cases) - len(mism)

    # the Blelloch wiring itself, read back from the real _layer() graph
    wcases, wkept = [], []
    nbs = (list(range(1, 70)) + [96, 100, 127, 128, 129, 130, 200, 255, 256, 257]) if tier == "thorough" else (list(range(1, 36)) + [48, 63, 64, 65, 66, 100, 128, 129])
    for nb in nbs:
        x = da.from_array(np.arange(nb), chunks=((1,) * nb,))
        e = CumReductionBlelloch(x.expr, np.cumsum, np.sum, operator.add, 0, None)
        tasks, finals = blelloch_tasks_of_layer(e._layer(), e._name, nb)
        chk.count("scan:blelloch-wiring:" + ("n<=64" if nb - 1 <= 64 else "n>64"))
        chk.case(("wiring", nb), nontrivial=nb > 2, sample={"fn": "CumReductionBlelloch._layer", "blocks": nb, "tasks(level,i,left)": tasks if nb < 9 else "..."})
        if tasks is None:
            chk.tie_break("correspondence:blelloch-wiring unreadable", {"blocks": nb})
            continue
        bad = [i for i, w in enumerate(finals) if w != list(range(i + 1))]
        if bad:
            chk.violation(f"Blelloch sweeps: block {bad[0] + 1} is combined with totals {finals[bad[0]]} instead of 0..{bad[0]}",
                          {"fn": "CumReductionBlelloch._layer", "blocks": nb}, signature={"fn": "blelloch-wiring", "class": "wrong-prefix"})
        wcases.append(ctuple(cz(nb - 1), clist(tasks, lambda t: ctuple(cz(t[0]), cz(t[1]), cz(t[2])))))
        wkept.append((nb, tasks))
    mism, _ = coq_eval_cases(
        HEADER, "Z * list (Z * Z * Z)",
        "Definition t3 (a b : Z * Z * Z) := let '(x, y, z) := a in let '(u, v, w) := b in (x =? u) && (y =? v) && (z =? w).\n"
        "Definition chk (c : Z * list (Z * Z * Z)) : bool := let '(n, ts) := c in list_eqb t3 (blelloch_tasks n) ts.",
        wcases, chunk=40)
    for i in mism[:5]:
        chk.tie_break("correspondence:blelloch_tasks", {"blocks": wkept[i][0], "impl_tasks": wkept[i][1][:40]})
    chk.traces_validated += len(wcases) - len(mism)

    # a non-commutative monoid through the public API: strings under concatenation
    for _ in range(300 if tier == "thorough" else 60):
        n = rng.choice([2, 3, 5, 8, 13, 21, 40])
        c = chunkings(rng, n)
        a = np.array([chr(97 + rng.randrange(26)) for _ in range(n)], dtype=object)
        want = list(itertools.accumulate(a.tolist()))
        for method in ("sequential", "blelloch"):
            x = da.from_array(a, chunks=(c,))
            chk.count(f"scan:strings:{method}")
            try:
                y = da.reductions.cumreduction(np.cumsum, operator.add, "", x, axis=0, dtype=object, method=method, preop=np.sum)
                got = y.compute(scheduler="synchronous").tolist()
            except Exception as e:  # noqa: BLE001
                got = norm_err(e)
            chk.case(("strscan", method, c, tuple(a.tolist())), nontrivial=len(c) > 1)
            if got != want:
                chk.violation(f"cumreduction over strings (non-commutative) method={method!r} differs from itertools.accumulate",
                              {"fn": "cumreduction", "method": method, "chunks": c, "data": a.tolist(), "impl": got},
                              signature={"fn": "cumreduction-strings", "method": method, "class": "wrong-value"})
            else:
                chk.traces_validated += 1


# =========================================================================================
# sliding windows
REDUCERS = [("sum", 0), ("min", 1), ("max", 2), ("prod", 3)]


def np_reduce(red, win):
    return getattr(np, red)(win, axis=-1)


def fam_sliding_struct(chk, da, tier):
    """supports_native_sliding_window / SlidingWindowReduction.chunks / _block_plan vs the model"""
    from dask_array.reductions._sliding_window import SlidingWindowReduction, supports_native_sliding_window
    rng = chk.rng
    inputs = []
    nmax = 7 if tier == "thorough" else 5
    for n in range(1, nmax + 1):
        for c in compositions(n):
            for w in range(1, n + 2):
                inputs.append((c, w))
    for _ in range(8000 if tier == "thorough" else 900):
        n = rng.choice([2, 3, 5, 8, 13, 21, 34, 60])
        c = chunkings(rng, n)
        w = rng.choice([1, 2, 3, max(c), max(c) + 1, max(c) + 2, min(c) + 1, n // 2 + 1, n - 1, n, n + 1, rng.randint(1, n)])
        if w < 1:
            w = 1
        inputs.append((c, w))
    cases = []
    for c, w in inputs:
        n = sum(c)
        sup = bool(supports_native_sliding_window(c, w))
        x = da.from_array(np.zeros(n, dtype="int64"), chunks=(c,))
        node = SlidingWindowReduction(x.expr, w, 0, 1, False, "sum", np.dtype("int64"))
        ch = tuple(int(v) for v in node.chunks[0])
        plan = [tuple(int(v) for v in row) for row in node._block_plan]
        chk.count("sliding-struct:" + ("native" if sup else "not-native") + (":w>maxblock" if w > max(c) else ""))
        chk.case(("swstruct", c, w), nontrivial=sup, sample={"fn": "SlidingWindowReduction", "chunks": c, "window": w, "supports": sup,
                                                             "node.chunks": ch, "_block_plan": plan})
        if sup:
            # property: the advertised chunks are a layout of the n-w+1 outputs, and the plan rows tile it
            if sum(ch) != n - w + 1 or any(v <= 0 for v in ch):
                chk.violation("SlidingWindowReduction.chunks is not a layout of length n-w+1", {"chunks": c, "window": w, "node.chunks": ch},
                              signature={"fn": "SlidingWindowReduction.chunks", "class": "layout"})
            if tuple(r[0] for r in plan if r[0] > 0) != ch:
                chk.violation("SlidingWindowReduction._block_plan out_len column differs from .chunks", {"chunks": c, "window": w, "node.chunks": ch, "plan": plan},
                              signature={"fn": "SlidingWindowReduction._block_plan", "class": "layout"})
        cases.append(ctuple(clist(c), cz(w), cbool(sup), clist(ch), clist(plan, lambda r: ctuple(*[cz(v) for v in r]))))
    mism, _ = coq_eval_cases(
        HEADER, "list Z * Z * bool * list Z * list (Z * Z * Z * Z)",
        "Definition t4 (a b : Z * Z * Z * Z) := let '(x, y, z, t) := a in let '(u, v, w, s) := b in (x =? u) && (y =? v) && (z =? w) && (t =? s).\n"
        "Definition chk (c : list Z * Z * bool * list Z * list (Z * Z * Z * Z)) : bool := let '(cs, w, sup, ch, plan) := c in\n"
        "  Bool.eqb (supports_native_sliding_window cs w) sup && zlist_eqb (swr_chunks cs w) ch && list_eqb t4 (block_plan cs w) plan.",
        cases)
    for i in mism[:5]:
        c, w = inputs[i]
        model = coq_eval_expr(HEADER, [f"(supports_native_sliding_window {clist(c)} {cz(w)}, swr_chunks {clist(c)} {cz(w)}, block_plan {clist(c)} {cz(w)})"])[0]
        chk.tie_break("correspondence:supports_native_sliding_window/chunks/_block_plan", {"chunks": c, "window": w, "model": model})
    chk.traces_validated += len(cases) - len(mism)


def sliding_case(da, a, chunks, w, axis, red):
    """run da.sliding_window_view(x, w, axis).<red>(-1); returns (blocks along `axis` of a 1-D input or None, value, err, optimized root name)"""
    x = da.from_array(a, chunks=chunks)
    v = da.sliding_window_view(x, w, axis=axis)
    y = v if red is None else getattr(v, red)(-1)
    return y


def fam_sliding_values(chk, da, tier):
    rng = chk.rng
    inputs = []
    # corpus: known findings first
    corpus = [
        ("F13", "zero-other-axis"),
        ("F17", "stacked-different-axes"),
        ("F11", "nested-same-axis"),
    ]
    for tag, _ in corpus:
        run_corpus(chk, da, tag)
    nmax = 7 if tier == "thorough" else 5
    for n in range(1, nmax + 1):
        for c in compositions(n):
            for w in range(1, n + 1):
                inputs.append((c, w, rng.choice(REDUCERS)[0]))
    for _ in range(6000 if tier == "thorough" else 500):
        n = rng.choice([2, 3, 5, 8, 13, 21, 34, 60])
        c = chunkings(rng, n)
        w = rng.choice([1, 2, 3, max(c), max(c) + 1, max(c) + 2, min(c) + 1, n // 2 + 1, n - 1, n, rng.randint(1, n)])
        w = min(max(w, 1), n)
        inputs.append((c, w, rng.choice(["sum", "sum", "min", "max", "prod", "mean", None])))
    from dask_array.reductions._sliding_window import supports_native_sliding_window
    cases, kept = [], []
    for c, w, red in inputs:
        n = sum(c)
        a = data(rng, n, -3, 3) if red == "prod" else data(rng, n)
        if red == "prod" and w > 20:
            a = np.array([rng.choice([-1, 1, 1, 2]) if i % 4 == 0 else rng.choice([-1, 1]) for i in range(n)], dtype="int64")
        win = SW(a, w)
        want = win if red is None else np_reduce(red, win)
        sup = bool(supports_native_sliding_window(c, w))
        chk.count(f"sliding:{red or 'view'}:" + ("native" if sup else "overlap-path") + (":w>maxblock" if w > max(c) else ""))
        try:
            y = sliding_case(da, a, (c,), w, 0, red)
            if red is None:
                blocks, root = None, None
                got = y.compute(scheduler="synchronous")
            else:
                blocks, o = real_blocks(y)
                got = np.concatenate(blocks, axis=0)
                root = type(o.expr).__name__
            err = None
        except Exception as e:  # noqa: BLE001
            blocks, got, err, root = None, None, norm_err(e), None
        chk.case(("sliding", c, w, red, tuple(a.tolist())), nontrivial=len(c) > 1 and w > 1,
                 sample={"fn": "da.sliding_window_view(x,w,0)." + str(red), "chunks": c, "window": w, "data": a.tolist(),
                         "impl": got.tolist() if got is not None else err, "optimized_root": root})
        sig = {"fn": "sliding_window_view", "reducer": red or "view", "levels": 1}
        if err is not None:
            chk.violation("sliding window raised: " + err, {"chunks": c, "window": w, "reducer": red, "data": a.tolist()},
                          signature={**sig, "class": "raises", "error": err})
            continue
        ok = np.allclose(got, want, rtol=1e-12, atol=0) if red == "mean" else np.array_equal(got, want)
        if got.shape != want.shape or not ok:
            chk.violation("sliding window result differs from NumPy", {"chunks": c, "window": w, "reducer": red, "data": a.tolist(),
                                                                      "impl": got.tolist(), "numpy": want.tolist()},
                          signature={**sig, "class": "wrong-value", "native": sup})
            continue
        if sup and red in ("sum", "min", "max", "prod"):
            if root != "SlidingWindowReduction":
                chk.tie_break("supported (chunks, window) did not lower to SlidingWindowReduction", {"chunks": c, "window": w, "root": root})
                continue
            cases.append(ctuple(clist(c), cz(w), cz(dict(REDUCERS)[red]), clist(a.tolist()), cll(blocks)))
            kept.append((c, w, red, a.tolist(), [b.tolist() for b in blocks]))
        else:
            chk.traces_validated += 1
    mism, _ = coq_eval_cases(
        HEADER, "list Z * Z * Z * list Z * list (list Z)",
        "Definition chk (c : list Z * Z * Z * list Z * list (list Z)) : bool := let '(cs, w, opc, xs, out) := c in\n"
        "  let op := if opc =? 0 then Z.add else if opc =? 1 then Z.min else if opc =? 2 then Z.max else Z.mul in\n"
        "  zlist2_eqb (sliding_native op 0 cs w xs) out && zlist_eqb (concat out) (sliding_spec op 0 w xs).",
        cases)
    for i in mism[:5]:
        c, w, red, a, blocks = kept[i]
        chk.tie_break("correspondence:sliding_native (_block_plan + _sliding_window_banded_reduce)", {"chunks": c, "window": w, "reducer": red, "data": a, "impl_blocks": blocks})
    chk.traces_validated += len(cases) - len(mism)

    # 2-D: the other axis chunked too, both sliding axes, keepdims
    for _ in range(1500 if tier == "thorough" else 150):
        n0, n1 = rng.choice([1, 2, 3, 5, 8, 13]), rng.choice([1, 2, 3, 5, 8, 13])
        c0, c1 = chunkings(rng, n0), chunkings(rng, n1)
        axis = rng.choice([0, 1])
        n = (n0, n1)[axis]
        w = rng.randint(1, n)
        red = rng.choice(["sum", "min", "max", "mean", None])
        keep = red is not None and rng.random() < 0.2
        a = np.array([[rng.randint(-9, 9) for _ in range(n1)] for _ in range(n0)], dtype="int64")
        win = SW(a, w, axis=axis)
        want = win if red is None else getattr(np, red)(win, axis=-1, keepdims=keep)
        chk.count(f"sliding2d:{red or 'view'}:axis{axis}" + (":keepdims" if keep else ""))
        try:
            x = da.from_array(a, chunks=(c0, c1))
            v = da.sliding_window_view(x, w, axis=axis)
            y = v if red is None else getattr(v, red)(-1, keepdims=keep)
            got = y.compute(scheduler="synchronous")
            err = None
        except Exception as e:  # noqa: BLE001
            got, err = None, norm_err(e)
        chk.case(("sliding2d", c0, c1, axis, w, red, keep, a.tobytes()), nontrivial=True)
        sig = {"fn": "sliding_window_view", "reducer": red or "view", "levels": 1, "ndim": 2}
        if err is not None:
            chk.violation("2-D sliding window raised: " + err, {"chunks": (c0, c1), "axis": axis, "window": w, "reducer": red, "data": a.tolist()},
                          signature={**sig, "class": "raises", "error": err})
        elif got.shape != want.shape or not (np.allclose(got, want, rtol=1e-12, atol=0) if red == "mean" else np.array_equal(got, want)):
            chk.violation("2-D sliding window result differs from NumPy", {"chunks": (c0, c1), "axis": axis, "window": w, "reducer": red, "keepdims": keep,
                                                                          "data": a.tolist(), "impl": got.tolist(), "numpy": want.tolist()},
                          signature={**sig, "class": "wrong-value"})
        else:
            chk.traces_validated += 1


def run_corpus(chk, da, tag):
    """the known findings of the unchanged tree, each with a specific signature"""
    chk.count("corpus:" + tag)
    if tag == "F13":
        chk.case(("corpus", tag))
        try:
            da.sliding_window_view(da.from_array(np.zeros((1, 4, 0)), chunks=((1,), (2, 1, 1), (0,))), 1, axis=0).sum(-1).compute(scheduler="synchronous")
        except Exception as e:  # noqa: BLE001
            chk.violation("sliding-window reduction with a zero-length OTHER axis raises: " + norm_err(e),
                          {"repro": "da.sliding_window_view(da.from_array(np.zeros((1,4,0)), chunks=((1,),(2,1,1),(0,))), 1, axis=0).sum(-1).compute()"},
                          signature={"fn": "sliding_window_view", "class": "raises", "zero_length_other_axis": True, "error": norm_err(e)})
    elif tag == "F17":
        chk.case(("corpus", tag))
        a = np.array([[0, 7, 14, -2, 5, 12], [-4, 3, 10, 17, 1, 8], [15, -1, 6, 13, -3, 4]])
        x = da.from_array(a, chunks=((3,), (5, 1)))
        y1 = da.sliding_window_view(x, 3, axis=0).min(-1)
        got = da.sliding_window_view(y1, 3, axis=1).max(-1).compute(scheduler="synchronous")
        want = SW(SW(a, 3, axis=0).min(-1), 3, axis=1).max(-1)
        if not np.array_equal(got, want):
            chk.violation("two stacked sliding-window reductions over different axes give wrong values",
                          {"repro": "x=from_array(a,chunks=((3,),(5,1))); sliding_window_view(sliding_window_view(x,3,axis=0).min(-1),3,axis=1).max(-1)",
                           "data": a.tolist(), "impl": got.tolist(), "numpy": want.tolist()},
                          signature={"fn": "sliding_window_view", "class": "wrong-value", "levels": 2, "same_axis": False})
    elif tag == "F11":
        chk.case(("corpus", tag))
        a = np.arange(6) * 5 % 7
        x = da.from_array(a, chunks=((1, 1, 4),))
        try:
            got = da.sliding_window_view(da.sliding_window_view(x, 2, axis=0).max(-1), 1, axis=0).max(-1).compute(scheduler="synchronous")
            want = SW(SW(a, 2).max(-1), 1).max(-1)
            if not np.array_equal(got, want):
                chk.violation("nested sliding-window reductions on the same axis give wrong values", {"impl": got.tolist(), "numpy": want.tolist()},
                              signature={"fn": "sliding_window_view", "class": "wrong-value", "levels": 2, "same_axis": True})
        except Exception as e:  # noqa: BLE001
            chk.violation("nested sliding-window reductions on the same axis raise at lowering: " + norm_err(e),
                          {"repro": "x=da.from_array(np.arange(6)*5%7, chunks=((1,1,4),)); da.sliding_window_view(da.sliding_window_view(x,2,axis=0).max(-1),1,axis=0).max(-1).compute()"},
                          signature={"fn": "sliding_window_view", "class": "raises", "levels": 2, "same_axis": True, "error": norm_err(e)})


def fam_nested(chk, da, tier):
    """a thin stream of two-level programs (the known findings live here)"""
    rng = chk.rng
    for _ in range(400 if tier == "thorough" else 40):
        same = rng.random() < 0.5
        if same:
            n = rng.choice([4, 6, 9, 14])
            c = chunkings(rng, n)
            w1 = rng.randint(1, n - 1)
            w2 = rng.randint(1, n - w1 + 1)
            a = data(rng, n)
            r1, r2 = rng.choice(["sum", "min", "max"]), rng.choice(["sum", "min", "max"])
            want = np_reduce(r2, SW(np_reduce(r1, SW(a, w1)), w2))
            x = da.from_array(a, chunks=(c,))
            mk = lambda: getattr(da.sliding_window_view(getattr(da.sliding_window_view(x, w1, axis=0), r1)(-1), w2, axis=0), r2)(-1)  # noqa: E731
            info = {"chunks": c, "w1": w1, "w2": w2, "r1": r1, "r2": r2, "data": a.tolist()}
        else:
            n0, n1 = rng.choice([3, 4, 6]), rng.choice([3, 4, 6, 9])
            c0, c1 = chunkings(rng, n0), chunkings(rng, n1)
            w1, w2 = rng.randint(1, n0), rng.randint(1, n1)
            a = np.array([[rng.randint(-9, 9) for _ in range(n1)] for _ in range(n0)], dtype="int64")
            r1, r2 = rng.choice(["sum", "min", "max"]), rng.choice(["sum", "min", "max"])
            want = np_reduce(r2, SW(np_reduce(r1, SW(a, w1, axis=0)), w2, axis=1))
            x = da.from_array(a, chunks=(c0, c1))
            mk = lambda: getattr(da.sliding_window_view(getattr(da.sliding_window_view(x, w1, axis=0), r1)(-1), w2, axis=1), r2)(-1)  # noqa: E731
            info = {"chunks": (c0, c1), "w1": w1, "w2": w2, "r1": r1, "r2": r2, "data": a.tolist()}
        chk.count("nested:" + ("same-axis" if same else "different-axes"))
        chk.case(("nested", same, json.dumps(info, default=str)))
        sig = {"fn": "sliding_window_view", "levels": 2, "same_axis": same}
        try:
            got = mk().compute(scheduler="synchronous")
        except Exception as e:  # noqa: BLE001
            chk.violation("nested sliding-window reductions raised: " + norm_err(e), info, signature={**sig, "class": "raises", "error": norm_err(e)})
            continue
        if got.shape != want.shape or not np.array_equal(got, want):
            chk.violation("nested sliding-window reductions differ from NumPy", {**info, "impl": got.tolist(), "numpy": want.tolist()},
                          signature={**sig, "class": "wrong-value"})
        else:
            chk.traces_validated += 1


# =========================================================================================
# overlap / map_overlap / trim
def stencil(r):
    def F(b):
        out = np.zeros_like(b)
        for k in range(-r, r + 1):
            out = out + (k + r + 1) * np.roll(b, k)
        return out
    return F


def stencil_global(r, padded):
    """the window function of `stencil` applied to every full window of the padded array"""
    win = SW(padded, 2 * r + 1)
    coef = np.array([(k + r + 1) for k in range(r, -r - 1, -1)])   # win[j] = x[t - r + j] pairs with k = r - j
    return (win * coef).sum(-1)


def fam_overlap_struct(chk, da, tier):
    from dask_array._overlap import _get_overlap_rechunked_chunks, _overlap_internal_chunks, ensure_minimum_chunksize
    rng = chk.rng
    # ensure_minimum_chunksize
    inputs = []
    nmax = 7 if tier == "thorough" else 6
    for n in range(1, nmax + 1):
        for c in compositions(n):
            for size in range(0, n + 2):
                inputs.append((size, c))
    for _ in range(8000 if tier == "thorough" else 700):
        n = rng.choice([2, 3, 5, 8, 13, 21, 34, 60])
        c = chunkings(rng, n)
        inputs.append((rng.choice([1, 2, 3, min(c) + 1, max(c), max(c) + 1, n, n + 1, rng.randint(1, n)]), c))
    cases = []
    for size, c in inputs:
        try:
            out = tuple(int(v) for v in ensure_minimum_chunksize(size, c))
        except ValueError:
            out = None
        chk.count("ensure_minimum_chunksize:" + ("raises" if out is None else "changed" if out != c else "same"))
        chk.case(("emc", size, c), nontrivial=out != c, sample={"fn": "ensure_minimum_chunksize", "size": size, "chunks": c, "impl": out})
        if out is not None and (sum(out) != sum(c) or any(v < size for v in out)):
            chk.violation("ensure_minimum_chunksize result is not a layout of the same length with every chunk >= size", {"size": size, "chunks": c, "impl": out},
                          signature={"fn": "ensure_minimum_chunksize", "class": "contract"})
        if out is None and size <= sum(c):
            chk.violation("ensure_minimum_chunksize raised although size <= len", {"size": size, "chunks": c}, signature={"fn": "ensure_minimum_chunksize", "class": "raises"})
        cases.append(ctuple(cz(size), clist(c), copt(out, clist)))
    mism, _ = coq_eval_cases(
        HEADER, "Z * list Z * option (list Z)",
        "Definition chk (c : Z * list Z * option (list Z)) : bool := let '(size, cs, o) := c in\n"
        "  match ensure_minimum_chunksize size cs, o with Some a, Some b => zlist_eqb a b | None, None => true | _, _ => false end.",
        cases)
    for i in mism[:5]:
        chk.tie_break("correspondence:ensure_minimum_chunksize", {"size": inputs[i][0], "chunks": inputs[i][1]})
    chk.traces_validated += len(cases) - len(mism)

    # _overlap_internal_chunks and _get_overlap_rechunked_chunks
    cases, kept = [], []
    for _ in range(5000 if tier == "thorough" else 500):
        n = rng.choice([1, 2, 3, 5, 8, 13, 21, 60])
        c = chunkings(rng, n)
        ld, rd = rng.choice([(0, 0), (1, 1), (2, 2), (0, 2), (3, 0), (1, 2), (min(c), min(c)), (max(c) + 1,) * 2, (rng.randint(0, n),) * 2])
        bnone = rng.random() < 0.5
        if not bnone:
            rd = ld
        oic = tuple(int(v) for v in _overlap_internal_chunks((c,), {0: (ld, rd)})[0])
        x = da.from_array(np.zeros(n, dtype="int64"), chunks=(c,))
        try:
            orc = tuple(int(v) for v in _get_overlap_rechunked_chunks(x, {0: (ld, rd)}, {0: "none" if bnone else "reflect"})[0])
        except ValueError:
            orc = None
        chk.count("overlap-chunks:" + ("none" if bnone else "bounded") + (":depth>minblock" if max(ld, rd) > min(c) else ""))
        chk.case(("ovchunks", c, ld, rd, bnone), nontrivial=len(c) > 1 and max(ld, rd) > 0,
                 sample={"chunks": c, "depth": (ld, rd), "boundary_none": bnone, "_overlap_internal_chunks": oic, "_get_overlap_rechunked_chunks": orc})
        if orc is not None and (sum(orc) != n or any(v < max(ld, rd) for v in orc)):
            chk.violation("_get_overlap_rechunked_chunks: a chunk is smaller than the depth", {"chunks": c, "depth": (ld, rd), "impl": orc},
                          signature={"fn": "_get_overlap_rechunked_chunks", "class": "contract"})
        cases.append(ctuple(clist(c), cz(ld), cz(rd), cbool(bnone), clist(oic), copt(orc, clist)))
        kept.append((c, ld, rd, bnone, oic, orc))
    mism, _ = coq_eval_cases(
        HEADER, "list Z * Z * Z * bool * list Z * option (list Z)",
        "Definition chk (c : list Z * Z * Z * bool * list Z * option (list Z)) : bool := let '(cs, ld, rd, bn, oic, orc) := c in\n"
        "  zlist_eqb (overlap_internal_chunks cs ld rd) oic &&\n"
        "  match overlap_rechunked_chunks cs ld rd bn, orc with Some a, Some b => zlist_eqb a b | None, None => true | _, _ => false end.",
        cases)
    for i in mism[:5]:
        chk.tie_break("correspondence:_overlap_internal_chunks/_get_overlap_rechunked_chunks", dict(zip(["chunks", "ld", "rd", "bnone", "oic", "orc"], kept[i])))
    chk.traces_validated += len(cases) - len(mism)


def fam_overlap_values(chk, da, tier):
    from dask_array._overlap import overlap as da_overlap, trim_internal
    rng = chk.rng
    inputs = []
    small = [c for n in range(1, 5) for c in compositions(n)]
    for c in small:
        for kind in KINDS:
            for d in range(0, 3):
                inputs.append((c, d, d, kind, rng.choice([0, 1])))
    for _ in range(5000 if tier == "thorough" else 320):
        n = rng.choice([1, 2, 3, 5, 8, 13, 21, 34, 60])
        c = chunkings(rng, n)
        kind = rng.choice(KINDS)
        d = rng.choice([0, 1, 1, 2, 3, min(c), min(c) + 1, max(c), max(c) + 1, n, n + 1, rng.randint(0, n)])
        ld, rd = d, d
        if kind == "none" and rng.random() < 0.4:
            ld, rd = rng.choice([(0, d), (d, 0), (d, rng.randint(0, max(d, 1)))])
        r = rng.randint(0, max(min(ld, rd), 0)) if rng.random() < 0.8 else min(ld, rd)
        r = min(r, 3)
        inputs.append((c, ld, rd, kind, r))
    cases, kept = [], []
    for c, ld, rd, kind, r in inputs:
        n = sum(c)
        a = data(rng, n)
        x = da.from_array(a, chunks=(c,))
        depth = {0: (ld, rd)} if ld != rd else {0: ld}
        chk.count(f"overlap:{kind}:" + ("asym" if ld != rd else "sym") + (":depth>minblock" if max(ld, rd) > min(c) else "") + (":depth>n" if max(ld, rd) > n else ""))
        # --- overlap + trim_internal
        try:
            ov = da_overlap(x, depth=depth, boundary={0: bval(kind)})
            ov_blocks = [np.asarray(b) for b in _blocks_of(ov)]
            tr = trim_internal(ov, {0: (ld, rd) if ld != rd else ld}, {0: bval(kind)})
            tr_blocks = [np.asarray(b) for b in _blocks_of(tr)]
            err = None
        except Exception as e:  # noqa: BLE001
            ov_blocks, tr_blocks, err = None, None, norm_err(e)
        chk.case(("overlap", c, ld, rd, kind, tuple(a.tolist())), nontrivial=len(c) > 1 and max(ld, rd) > 0,
                 sample={"fn": "overlap+trim_internal", "chunks": c, "depth": (ld, rd), "boundary": kind, "data": a.tolist(),
                         "impl_overlap_blocks": [b.tolist() for b in ov_blocks] if ov_blocks else err})
        sig = {"fn": "overlap", "boundary": kind}
        if err is not None:
            if max(ld, rd) > n and "overlapping depth" in err:
                chk.count("overlap:declined-depth>n")   # documented refusal: depth larger than the array
            else:
                chk.violation("overlap raised: " + err, {"chunks": c, "depth": (ld, rd), "boundary": kind, "data": a.tolist()},
                              signature={**sig, "class": "raises", "error": err})
        else:
            back = np.concatenate(tr_blocks) if tr_blocks else np.zeros(0)
            if not np.array_equal(back, a):
                chk.violation("trim_internal(overlap(x)) != x", {"chunks": c, "depth": (ld, rd), "boundary": kind, "data": a.tolist(), "impl": back.tolist()},
                              signature={**sig, "class": "trim-not-inverse"})
            # each overlapped block = its padded neighbourhood
            padded = a if kind == "none" or ld == 0 else np.pad(a, ld, mode=NP_PAD[kind], **({"constant_values": CONST} if kind == "const" else {}))
            off = 0 if kind == "none" or ld == 0 else ld
            pos = 0
            okb = True
            for j, (tb, ob) in enumerate(zip(tr_blocks, ov_blocks)):
                lo = pos + off - (0 if (kind == "none" and j == 0) else ld)
                hi = pos + off + len(tb) + (0 if (kind == "none" and j == len(tr_blocks) - 1) else rd)
                if not np.array_equal(ob, padded[lo:hi]):
                    okb = False
                pos += len(tb)
            if not okb:
                chk.violation("an overlapped block is not the block plus `depth` cells of its padded neighbourhood",
                              {"chunks": c, "depth": (ld, rd), "boundary": kind, "data": a.tolist(), "impl_blocks": [b.tolist() for b in ov_blocks]},
                              signature={**sig, "class": "wrong-halo"})
        cases.append(ctuple(cbool(False), cll(np.split(a, np.cumsum(c)[:-1])), cz(ld), cz(rd), ckind(kind), cz(0), copt(ov_blocks, cll)))
        kept.append(("overlap", c, ld, rd, kind, 0, a.tolist(), ov_blocks))
        # --- map_overlap with a radius-r stencil
        if err is None and max(ld, rd) > 0:
            try:
                mo = da.map_overlap(stencil(r), x, depth=depth, boundary={0: bval(kind)}, dtype="int64")
                mo_blocks = [np.asarray(b) for b in _blocks_of(mo)]
                merr = None
            except Exception as e:  # noqa: BLE001
                mo_blocks, merr = None, norm_err(e)
            chk.count(f"map_overlap:{kind}:r{r}")
            # the same call with the boundary SPELLED differently (scalar / string for all axes, tuple per axis) and with the
            # constant 0 (a falsy constant is a constant, not "no boundary"); symmetric depths only
            if merr is None and ld == rd and len(c) > 0:
                for spell, val, npkw in spellings(kind):
                    try:
                        alt = da.map_overlap(stencil(r), x, depth=ld, boundary=val, dtype="int64").compute(scheduler="sync")
                        p2 = np.pad(a, r, **npkw) if r else a
                        want2 = stencil_global(r, p2)
                    except Exception as e:  # noqa: BLE001
                        chk.count(f"map_overlap:spelling-raises:{spell}")
                        continue
                    chk.count(f"map_overlap:spelling:{spell}")
                    if want2 is not None and (alt.shape != want2.shape or not np.array_equal(alt, want2)):
                        chk.violation(f"map_overlap with boundary={val!r} ({spell}) differs from NumPy's padded stencil",
                                      {"chunks": c, "depth": ld, "boundary": repr(val), "radius": r, "data": a.tolist(), "impl": alt.tolist(), "numpy": want2.tolist()},
                                      signature={"fn": "map_overlap", "boundary": kind, "class": "wrong-value", "spelling": spell})
                    else:
                        chk.traces_validated += 1
            chk.case(("map_overlap", c, ld, rd, kind, r, tuple(a.tolist())), nontrivial=len(c) > 1)
            if merr is not None:
                chk.violation("map_overlap raised: " + merr, {"chunks": c, "depth": (ld, rd), "boundary": kind, "radius": r, "data": a.tolist()},
                              signature={"fn": "map_overlap", "boundary": kind, "class": "raises", "error": merr})
            else:
                got = np.concatenate(mo_blocks) if mo_blocks else np.zeros(0, dtype="int64")
                if kind == "none":
                    want = stencil_global(r, a) if n >= 2 * r + 1 else np.zeros(0, dtype="int64")
                    cmpgot = got[r:n - r] if n >= 2 * r + 1 else got[:0]
                else:
                    p = np.pad(a, r, mode=NP_PAD[kind], **({"constant_values": CONST} if kind == "const" else {})) if r else a
                    want = stencil_global(r, p)
                    cmpgot = got
                if len(got) != n or not np.array_equal(cmpgot, want):
                    chk.violation("map_overlap(stencil) differs from the stencil on the globally padded array",
                                  {"chunks": c, "depth": (ld, rd), "boundary": kind, "radius": r, "data": a.tolist(), "impl": got.tolist(), "numpy": want.tolist()},
                                  signature={"fn": "map_overlap", "boundary": kind, "class": "wrong-value"})
                cases.append(ctuple(cbool(True), cll(np.split(a, np.cumsum(c)[:-1])), cz(ld), cz(rd), ckind(kind), cz(r), copt(mo_blocks, cll)))
                kept.append(("map_overlap", c, ld, rd, kind, r, a.tolist(), mo_blocks))
    mism, _ = coq_eval_cases(
        HEADER, "bool * list (list Z) * Z * Z * bkind Z * Z * option (list (list Z))",
        "Definition chk (c : bool * list (list Z) * Z * Z * bkind Z * Z * option (list (list Z))) : bool := let '(mo, blocks, ld, rd, k, r, out) := c in\n"
        "  match (if mo then map_overlap (roll_stencil r) blocks ld rd k else overlap blocks ld rd k), out with\n"
        "  | Some a, Some b => zlist2_eqb a b | None, None => true | _, _ => false end.",
        cases, chunk=200)
    for i in mism[:5]:
        what, c, ld, rd, kind, r, a, blocks = kept[i]
        chk.tie_break("correspondence:" + what, {"chunks": c, "depth": (ld, rd), "boundary": kind, "radius": r, "data": a,
                                                 "impl_blocks": [b.tolist() for b in blocks] if blocks is not None else None})
    chk.traces_validated += len(cases) - len(mism)


def fam_sliced_results(chk, da, tier):
    """A SLICE of a windowed / scan result must be that slice of the full result.  The slice is a rewrite trigger (pushdown through
    MapOverlap, sliding-window kernels, cumulative): the oracle is the full result computed first, then sliced by NumPy, which holds
    for every block function.  Slices hug the two ends within depth + 1 cells (where the boundary strips live) and the block seams."""
    rng = chk.rng
    # directed: every boundary kind, depth 2 and 3, every short unit-step slice starting or ending within depth + 1 cells of an end
    for kind in KINDS:
        for d in (2, 3):
            for c in ((5, 5), (3, 4, 3)):
                n = sum(c)
                a = data(rng, n)
                y = da.map_overlap(stencil(d), da.from_array(a, chunks=(c,)), depth={0: d}, boundary={0: bval(kind)}, dtype="int64")
                with warnings.catch_warnings():
                    warnings.simplefilter("ignore")
                    full = np.asarray(y.compute(scheduler="sync"))
                spans = [(lo, lo + k) for lo in range(0, d + 2) for k in (1, 2)] + [(n - hi - k, n - hi) for hi in range(0, d + 2) for k in (1, 2)]
                for lo, hi in spans:
                    chk.count(f"sliced:directed:{kind}")
                    chk.case(("sliced-directed", kind, d, c, lo, hi), nontrivial=True)
                    desc = {"fn": "map_overlap", "chunks": c, "depth": d, "radius": d, "boundary": kind, "index": f"[{lo}:{hi}]", "data": a.tolist()}
                    try:
                        with warnings.catch_warnings():
                            warnings.simplefilter("ignore")
                            got = np.asarray(y[lo:hi].compute(scheduler="sync"))
                    except Exception as e:  # noqa: BLE001
                        chk.violation(f"a slice of a map_overlap result raises ({norm_err(e)}) although the full result computes", desc,
                                      signature={"fn": "map_overlap", "class": "sliced-result-raises", "boundary": kind, "error": norm_err(e), "stepped": False})
                        continue
                    # boundary "none": cells within the stencil radius of an array END see no halo there (the roll wraps inside the block),
                    # their value depends on the block extent and is outside the NumPy definition: compare the interior only
                    keep = np.ones(hi - lo, dtype=bool) if kind != "none" else np.array([d <= p < n - d for p in range(lo, hi)], dtype=bool)
                    if got.shape != full[lo:hi].shape or not np.array_equal(got[keep], full[lo:hi][keep]):
                        chk.violation("a slice of a map_overlap result differs from the same slice of the full result",
                                      {**desc, "impl": got.tolist(), "want": full[lo:hi].tolist()},
                                      signature={"fn": "map_overlap", "class": "sliced-result-value", "boundary": kind, "stepped": False})
                    else:
                        chk.traces_validated += 1
    for it in range(2500 if tier == "thorough" else 260):
        two_d = rng.random() < 0.3
        n = rng.choice([4, 5, 8, 13, 21, 40])
        c = chunkings(rng, n)
        kind = rng.choice(KINDS + ["periodic", "reflect"])
        what = rng.choice(["map_overlap", "map_overlap", "map_overlap", "sliding-sum", "sliding-view", "cumsum", "moving"])
        d = rng.choice([1, 2, 2, 3, min(max(c), 4)])
        a = data(rng, n * (3 if two_d else 1)).reshape((n, 3) if two_d else (n,))
        x = da.from_array(a, chunks=(c, (2, 1)) if two_d else (c,))
        r = rng.randint(0, d)
        try:
            if what == "map_overlap":
                if max(d, 1) > n:
                    continue
                f = stencil(r) if not two_d else (lambda b, _r=r: sum(np.roll(b, k, axis=0) for k in range(-_r, _r + 1)))
                y = da.map_overlap(f, x, depth={0: d} if not two_d else {0: d, 1: 0}, boundary={0: bval(kind)} if not two_d else {0: bval(kind), 1: "none"}, dtype="int64")
            elif what == "sliding-sum":
                w = rng.randint(1, min(n, 6))
                y = da.sliding_window_view(x, w, axis=0).sum(-1)
            elif what == "sliding-view":
                w = rng.randint(1, min(n, 4))
                y = da.sliding_window_view(x, w, axis=0)
            elif what == "cumsum":
                y = da.cumsum(x, axis=0, method=rng.choice(["sequential", "blelloch"]))
            else:
                w = rng.randint(1, min(n, 5))
                y = da.sliding_window_view(x, w, axis=0).max(-1)
            with warnings.catch_warnings():
                warnings.simplefilter("ignore")
                full = np.asarray(y.compute(scheduler="sync"))
        except Exception as e:  # noqa: BLE001
            chk.count("sliced:construction-raises:" + what)
            continue
        m = full.shape[0]
        edges = sorted({0, 1, 2, d - 1, d, d + 1, m - d - 1, m - d, m - d + 1, m - 2, m - 1, m} | set(np.cumsum(c).tolist()))
        edges = [e for e in edges if 0 <= e <= m]
        for _ in range(4):
            lo = rng.choice(edges)
            hi = rng.choice([e for e in edges if e >= lo] or [m])
            step = rng.choice([1, 1, 1, 2, -1])
            sl = slice(lo, hi, step) if step > 0 else slice(hi - 1 if hi > 0 else None, lo - 1 if lo > 0 else None, -1)
            idx = (sl,) if rng.random() < 0.8 or full.ndim == 1 else (sl, rng.choice([0, slice(1, None)]))
            chk.count(f"sliced:{what}" + (":" + kind if what == "map_overlap" else ""))
            chk.case(("sliced", what, kind, c, d, r, repr(idx), two_d, it), nontrivial=len(c) > 1)
            desc = {"fn": what, "chunks": c, "depth": d, "radius": r, "boundary": kind if what == "map_overlap" else None, "index": repr(idx),
                    "two_d": two_d, "data": a.tolist()}
            try:
                with warnings.catch_warnings():
                    warnings.simplefilter("ignore")
                    got = np.asarray(y[idx].compute(scheduler="sync"))
            except Exception as e:  # noqa: BLE001
                chk.violation(f"a slice of a {what} result raises ({norm_err(e)}) although the full result computes",
                              desc, signature={"fn": what, "class": "sliced-result-raises", "boundary": kind if what == "map_overlap" else None, "error": norm_err(e),
                                         "stepped": step != 1})
                continue
            want = full[idx]
            if what == "map_overlap" and kind == "none" and got.shape == want.shape:
                # cells within the stencil radius of an array end are outside the definition under boundary "none" (see above)
                pos = np.arange(m)[idx[0]]
                keep = (pos >= r) & (pos < m - r)
                got, want = got[keep], want[keep]
            if got.shape != want.shape or not np.array_equal(got, want):
                chk.violation(f"a slice of a {what} result differs from the same slice of the full result",
                              {**desc, "impl": got.tolist(), "want": want.tolist()},
                              signature={"fn": what, "class": "sliced-result-value", "boundary": kind if what == "map_overlap" else None, "stepped": step != 1})
            else:
                chk.traces_validated += 1


def fam_sliding_multi_axis(chk, da, tier):
    """sliding_window_view over SEVERAL axes, incl. an axis listed more than once (NumPy applies the windows one after the other):
    advertised shape, block shapes and values against numpy.lib.stride_tricks.sliding_window_view"""
    from numpy.lib.stride_tricks import sliding_window_view as np_swv
    rng = chk.rng
    for it in range(600 if tier == "thorough" else 70):
        shape = (rng.choice([5, 7, 12, 20]), rng.choice([3, 4, 6]))
        a = data(rng, shape[0] * shape[1]).reshape(shape)
        chunks = (chunkings(rng, shape[0]), chunkings(rng, shape[1]))
        k = rng.choice([1, 2, 2, 3])
        axes = tuple(rng.choice([0, 0, 1, -1, -2]) for _ in range(k))
        wins = tuple(rng.choice([1, 2, 2, 3]) for _ in range(k))
        desc = {"fn": "sliding_window_view", "shape": shape, "chunks": chunks, "window_shape": wins, "axis": axes, "data": a.tolist()}
        repeated = len({ax % 2 for ax in axes}) < len(axes)
        chk.count("sliding-multi:" + ("repeated-axis" if repeated else "distinct-axes"))
        chk.case(("sliding-multi", shape, chunks, wins, axes, it), nontrivial=True)
        try:
            want = np_swv(a, wins, axis=axes)
        except Exception:  # noqa: BLE001
            chk.count("sliding-multi:numpy-rejects")
            continue
        try:
            with warnings.catch_warnings():
                warnings.simplefilter("ignore")
                y = da.sliding_window_view(da.from_array(a, chunks=chunks), wins, axis=axes)
                adv = tuple(y.shape)
                got = np.asarray(y.compute(scheduler="sync"))
                blocks = real_blocks(y) if y.ndim == 1 else None
        except Exception as e:  # noqa: BLE001
            chk.violation("sliding_window_view raises for a window / axis tuple NumPy accepts: " + norm_err(e), desc,
                          signature={"fn": "sliding_window_view", "class": "multi-axis-raises", "repeated": repeated, "error": norm_err(e)})
            continue
        if adv != want.shape or got.shape != want.shape or not np.array_equal(got, want):
            chk.violation("sliding_window_view over several axes differs from NumPy (advertised shape, computed shape or values)",
                          {**desc, "advertised": adv, "computed_shape": got.shape, "numpy_shape": want.shape},
                          signature={"fn": "sliding_window_view", "class": "multi-axis-value", "repeated": repeated})
        else:
            chk.traces_validated += 1


def fam_overlap_2d(chk, da, tier):
    """map_overlap on 2-D arrays with depths on EITHER or BOTH axes and a boundary kind per axis: the block function sums the
    (2r0+1) x (2r1+1) neighbourhood by rolling inside the extended block; the oracle applies the same neighbourhood sum to the
    globally padded array (np.pad per axis with the NumPy mode of the boundary kind).  Axes with boundary "none" are compared on
    their interior only (cells within the radius of an end have no halo there)."""
    rng = chk.rng
    for it in range(1500 if tier == "thorough" else 160):
        shape = (rng.choice([4, 6, 9]), rng.choice([3, 5, 8]))
        a = data(rng, shape[0] * shape[1]).reshape(shape)
        chunks = (chunkings(rng, shape[0]), chunkings(rng, shape[1]))
        kinds = (rng.choice(KINDS), rng.choice(KINDS))
        depth = tuple(rng.choice([0, 1, 1, 2]) for _ in range(2))
        depth = tuple(min(d, n) for d, n in zip(depth, shape))
        rad = tuple(rng.randint(0, d) for d in depth)
        if depth == (0, 0):
            continue

        def f(b, _r=rad):
            out = np.zeros_like(b)
            for i in range(-_r[0], _r[0] + 1):
                for j in range(-_r[1], _r[1] + 1):
                    out = out + np.roll(np.roll(b, i, axis=0), j, axis=1)
            return out
        desc = {"fn": "map_overlap-2d", "shape": shape, "chunks": chunks, "depth": depth, "radius": rad, "boundary": kinds, "data": a.tolist()}
        chk.count(f"overlap2d:{kinds[0]}+{kinds[1]}:depth-axes={''.join(str(i) for i, d in enumerate(depth) if d)}")
        chk.case(("overlap2d", shape, chunks, depth, rad, kinds, it), nontrivial=len(chunks[0]) * len(chunks[1]) > 1)
        try:
            with warnings.catch_warnings():
                warnings.simplefilter("ignore")
                y = da.map_overlap(f, da.from_array(a, chunks=chunks), depth={0: depth[0], 1: depth[1]},
                                   boundary={0: bval(kinds[0]), 1: bval(kinds[1])}, dtype="int64")
                got = np.asarray(y.compute(scheduler="sync"))
        except Exception as e:  # noqa: BLE001
            if any(d > min(c) for d, c in zip(depth, chunks)) and "overlapping depth" in str(e):
                chk.count("overlap2d:declined-depth>chunk")
                continue
            chk.violation("2-D map_overlap raises: " + norm_err(e), desc, signature={"fn": "map_overlap-2d", "class": "raises", "error": norm_err(e)})
            continue
        p = a
        for ax in (0, 1):
            if rad[ax] and kinds[ax] != "none":
                pw = [(0, 0), (0, 0)]
                pw[ax] = (rad[ax], rad[ax])
                p = np.pad(p, pw, mode=NP_PAD[kinds[ax]], **({"constant_values": CONST} if kinds[ax] == "const" else {}))
        want = np.zeros(shape, dtype="int64")
        o0 = rad[0] if kinds[0] != "none" else 0
        o1 = rad[1] if kinds[1] != "none" else 0
        ok_rows = [i for i in range(shape[0]) if kinds[0] != "none" or rad[0] <= i < shape[0] - rad[0]]
        ok_cols = [j for j in range(shape[1]) if kinds[1] != "none" or rad[1] <= j < shape[1] - rad[1]]
        for i in ok_rows:
            for j in ok_cols:
                want[i, j] = p[i + o0 - rad[0]: i + o0 + rad[0] + 1, j + o1 - rad[1]: j + o1 + rad[1] + 1].sum()
        sel = np.ix_(ok_rows, ok_cols)
        if got.shape != shape or not np.array_equal(got[sel], want[sel]):
            chk.violation("2-D map_overlap differs from the neighbourhood sum on the globally padded array",
                          {**desc, "impl": got.tolist(), "numpy": want.tolist()},
                          signature={"fn": "map_overlap-2d", "class": "wrong-value", "boundary": "+".join(kinds)})
        else:
            chk.traces_validated += 1


def fam_scan_variants(chk, da, tier):
    """nancumsum / nancumprod over data with NaNs, and cumsum / cumprod over MASKED arrays (masked entries are skipped and stay
    masked), both methods, 1-D and 2-D, many-block layouts incl. zero-size chunks: NumPy is the oracle."""
    rng = chk.rng
    for it in range(1200 if tier == "thorough" else 140):
        two_d = rng.random() < 0.35
        n = rng.choice([1, 2, 3, 5, 8, 13])
        shape = (n, 3) if two_d else (n,)
        axis = rng.choice([0, 1]) if two_d else 0
        c0 = chunkings(rng, n, zero=rng.random() < 0.3)
        chunks = (c0, (2, 1)) if two_d else (c0,)
        variant = rng.choice(["nancumsum", "nancumprod", "masked-cumsum", "masked-cumprod"])
        method = rng.choice(["sequential", "blelloch"])
        base = np.array([rng.choice([1, 2, 3, -1, -2]) for _ in range(int(np.prod(shape)))], dtype="float64").reshape(shape)
        holes = np.array([rng.random() < 0.3 for _ in range(base.size)]).reshape(shape)
        desc = {"fn": variant, "method": method, "shape": shape, "chunks": chunks, "axis": axis, "data": base.tolist(), "holes": holes.tolist()}
        chk.count(f"scan-variant:{variant}:{method}")
        chk.case(("scan-variant", variant, method, shape, chunks, axis, it), nontrivial=len(c0) > 1)
        try:
            with warnings.catch_warnings():
                warnings.simplefilter("ignore")
                if variant.startswith("nan"):
                    a = base.copy()
                    a[holes] = np.nan
                    got = np.asarray(getattr(da, variant)(da.from_array(a, chunks=chunks), axis=axis, method=method).compute(scheduler="sync"))
                    want = getattr(np, variant)(a, axis=axis)
                    ok = got.shape == want.shape and np.allclose(got, want, equal_nan=True)
                else:
                    a = np.ma.masked_array(base, mask=holes)
                    fn = variant.split("-")[1]
                    got = getattr(da, fn)(da.from_array(a, chunks=chunks, asarray=False), axis=axis, method=method).compute(scheduler="sync")
                    want = getattr(np.ma, fn)(a, axis=axis) if hasattr(np.ma, fn) else getattr(a, fn)(axis=axis)
                    gm, wm = np.ma.getmaskarray(got), np.ma.getmaskarray(want)
                    ok = got.shape == want.shape and np.array_equal(gm, wm) and np.allclose(np.ma.getdata(got)[~gm], np.ma.getdata(want)[~wm])
        except Exception as e:  # noqa: BLE001
            chk.violation(f"{variant} ({method}) raises: " + norm_err(e), desc, signature={"fn": variant, "class": "raises", "method": method, "error": norm_err(e),
                                                                                            "zero_chunk": 0 in c0})
            continue
        if not ok:
            chk.violation(f"{variant} ({method}) differs from NumPy", {**desc, "impl": np.ma.filled(got, np.nan).tolist() if variant.startswith("masked") else got.tolist(),
                                                                      "numpy": np.ma.filled(want, np.nan).tolist() if variant.startswith("masked") else want.tolist()},
                          signature={"fn": variant, "class": "wrong-value", "method": method, "zero_chunk": 0 in c0})
        else:
            chk.traces_validated += 1


def _blocks_of(arr):
    """blocks of a 1-D dask array as it is defined (advertised grid), computed block by block"""
    from dask.local import get_sync
    keys = list(arr.__dask_keys__())
    out = get_sync(arr.__dask_graph__(), keys)
    adv = tuple(arr.chunks[0])
    got = tuple(len(b) for b in out)
    if adv != got:
        raise AssertionError(f"advertised chunks {adv} but produced blocks of {got}")
    return out


def fam_diff_gradient_values(chk, da, tier):
    rng = chk.rng
    for _ in range(3000 if tier == "thorough" else 300):
        nd = rng.choice([1, 1, 2])
        shape = tuple(rng.choice([1, 2, 3, 5, 8, 13, 30]) for _ in range(nd))
        chunks = tuple(chunkings(rng, s) for s in shape)
        a = np.array([rng.randint(-9, 9) for _ in range(int(np.prod(shape)))], dtype="int64").reshape(shape)
        axis = rng.randrange(nd)
        x = da.from_array(a, chunks=chunks)
        if rng.random() < 0.5:
            k = rng.choice([0, 1, 1, 2, 3])
            kw = {}
            if rng.random() < 0.3:
                kw["prepend"] = rng.randint(-5, 5)
            if rng.random() < 0.3:
                kw["append"] = rng.randint(-5, 5)
            want = np.diff(a, k, axis=axis, **kw)
            what, info = "diff", {"n": k, "axis": axis, **kw}
            run = lambda: da.diff(x, k, axis=axis, **kw)  # noqa: E731
        else:
            eo = rng.choice([1, 1, 2])
            if shape[axis] < eo + 1:
                continue
            sp = rng.choice([1, 2])
            want = np.gradient(a, sp, axis=axis, edge_order=eo)
            what, info = "gradient", {"axis": axis, "edge_order": eo, "spacing": sp}
            run = lambda: da.gradient(x, sp, axis=axis, edge_order=eo)  # noqa: E731
        chk.count(f"{what}:{nd}d")
        chk.case((what, shape, chunks, json.dumps(info), a.tobytes()), nontrivial=any(len(c) > 1 for c in chunks))
        try:
            got = run().compute(scheduler="synchronous")
        except Exception as e:  # noqa: BLE001
            err = norm_err(e)
            if what == "gradient" and "Chunk size must be larger than edge_order" in str(e):
                chk.count("gradient:declined-small-chunk")   # documented refusal
                continue
            chk.violation(f"da.{what} raised: {err}", {"shape": shape, "chunks": chunks, **info, "data": a.tolist()},
                          signature={"fn": what, "class": "raises", "error": err})
            continue
        if got.shape != want.shape or not np.array_equal(got, want):   # halves of small ints: exactly representable
            chk.violation(f"da.{what} differs from NumPy", {"shape": shape, "chunks": chunks, **info, "data": a.tolist(), "impl": got.tolist(), "numpy": want.tolist()},
                          signature={"fn": what, "class": "wrong-value"})
        else:
            chk.traces_validated += 1


# =========================================================================================
# diff / gradient against the Gallina model (coq/theories/DiffGrad.v)
DG_HEADER = ("From DA Require Import PyBase Scan Window DiffGrad.\nFrom Coq Require Import QArith.\nOpen Scope Z_scope.\n"
             "Definition tol : Q := Qmake 1 1000000000%positive.\n"
             "Definition qll_eqb (exact : bool) (a b : list (list Q)) : bool := list_eqb (if exact then qlist_eqb else qlist_close tol) a b.\n")
GUARD_MSG = "Chunk size must be larger than edge_order"
_PROBE = {"rec": None}


def _install_gradient_probe():
    """wrap dask_array.routines._gradient._gradient_kernel (looked up by gradient() at call time) so that every
    call records its block id, the extended block, the axis and the coordinate window; nothing in /repo changes"""
    import dask_array.routines._gradient as G
    if _PROBE["rec"] is not None:
        return _PROBE["rec"]
    rec = []
    orig = G._gradient_kernel

    def _gradient_kernel(x, block_id, coord, axis, array_locs, grad_kwargs):
        win = None
        if array_locs is not None:
            b = block_id[axis]
            win = (int(array_locs[0][b]), int(array_locs[1][b]),
                   [int(v) for v in np.asarray(coord)[array_locs[0][b]:array_locs[1][b]]],
                   ([int(v) for v in array_locs[0]], [int(v) for v in array_locs[1]]))
        rec.append({"block_id": tuple(int(v) for v in block_id), "x": np.array(x, copy=True), "axis": int(axis), "win": win,
                    "kw": dict(grad_kwargs)})
        return orig(x, block_id, coord, axis, array_locs, grad_kwargs)

    G._gradient_kernel = _gradient_kernel
    _PROBE["rec"] = rec
    return rec


def cq(fr):
    from fractions import Fraction
    fr = Fraction(fr)
    return f"(Qmake {cz(fr.numerator)} {fr.denominator}%positive)"


def cqll(bs):
    return clist(bs, lambda b: clist(b, cq))


def dg_chunks(rng, n):
    """layouts of an axis of length n >= 1 with many chunks of 1, 2, 3 (next to gradient's guard)"""
    r = rng.random()
    if r < 0.2:
        k = rng.choice([1, 2, 2, 3, 3, 4])
        return tuple([k] * (n // k) + ([n % k] if n % k else []))
    if r < 0.3:
        return (n,)
    if r < 0.8:
        out, left = [], n
        while left > 0:
            c = min(left, rng.choice([1, 2, 2, 3, 3, 3, 4, 5]))
            out.append(c)
            left -= c
        rng.shuffle(out)
        return tuple(out)
    return chunkings(rng, n)


def _nd_blocks(arr):
    """{block index: ndarray} of the optimized graph of a dask array, the optimized collection"""
    from dask.core import flatten
    from dask.local import get_sync
    o = arr.optimize()
    keys = list(flatten(o.__dask_keys__()))
    out = get_sync(o.__dask_graph__(), keys)
    return {tuple(k[1:]): np.asarray(b) for k, b in zip(keys, out)}, o


def _assemble(blocks, nd):
    if nd == 1:
        n = 1 + max(k[0] for k in blocks)
        return np.concatenate([blocks[(i,)] for i in range(n)])
    ni = 1 + max(k[0] for k in blocks)
    nj = 1 + max(k[1] for k in blocks)
    return np.block([[blocks[(i, j)] for j in range(nj)] for i in range(ni)])


def _lane_of(block, axis, k):
    """lane k (index along the other axis, block-local) of a 1-D / 2-D block along `axis`"""
    if block.ndim == 1:
        return block
    return block[:, k] if axis == 0 else block[k, :]


def _lane_blocks(blocks, nd, axis, lane, other_chunks):
    """the pieces of global lane `lane` in the blocks along `axis`"""
    if nd == 1:
        n = 1 + max(k[0] for k in blocks)
        return [blocks[(i,)] for i in range(n)]
    starts = np.cumsum((0,) + tuple(other_chunks))
    bj = int(np.searchsorted(starts, lane, side="right") - 1)
    off = lane - int(starts[bj])
    n = 1 + max(k[axis] for k in blocks)
    return [_lane_of(blocks[(i, bj) if axis == 0 else (bj, i)], axis, off) for i in range(n)]


def _to_int(v, scale):
    from fractions import Fraction
    f = Fraction(float(v)) * scale
    if f.denominator != 1:
        raise ValueError(f"{v!r} * {scale} is not an integer")
    return int(f.numerator)


def _gradient_run(da, rec, a, chunks, spacing, axis, eo):
    """run da.gradient with the probe; returns ('raised', err) or ('ok', plan dict)"""
    del rec[:]
    x = da.from_array(a, chunks=chunks)
    try:
        g = da.gradient(x, spacing, axis=axis, edge_order=eo)
    except Exception as e:  # noqa: BLE001
        return "raised", e
    e = g.expr
    plan = {"node": type(e).__name__}
    if type(e).__name__ == "MapOverlap":
        plan.update(depth=[dict(d) for d in e.depth], boundary=[dict(b) for b in e.boundary], allow_rechunk=bool(e.allow_rechunk),
                    trim=bool(e.trim_output))
    plan["chunks"] = tuple(tuple(int(v) for v in c) for c in g.chunks)
    try:
        blocks, o = _nd_blocks(g)
    except Exception as e2:  # noqa: BLE001
        return "raised", e2
    plan["blocks"] = blocks
    plan["records"] = [dict(r) for r in rec]
    return "ok", plan


def _core_run(da, a, chunks, sp, eo):
    """the map_overlap pipeline of gradient() WITHOUT its chunk-size guard (1-D, scalar spacing): the trimmed blocks, or None when
    a block's np.gradient raises"""
    import dask_array.routines._gradient as G
    from dask_array._overlap import map_overlap
    x = da.from_array(a, chunks=chunks).astype(float)
    try:
        g = map_overlap(G._gradient_kernel, x, dtype=float, depth={0: 1}, boundary="none", coord=sp, axis=0, array_locs=None,
                        grad_kwargs={"edge_order": eo})
        blocks, _o = _nd_blocks(g)
    except ValueError as e:
        if "too small to calculate a numerical gradient" in str(e):
            return None
        raise
    return [blocks[(i,)] for i in range(len(blocks))]


def _plan_problems(plan, a, chunks, axis, eo):
    """the parts of the real plan that are not sent to Coq: node kind, depth / boundary dictionaries, the kernel's block ids, the
    extent of the extended blocks along the other axes"""
    nd = a.ndim
    bad = []
    if plan["node"] != "MapOverlap":
        bad.append(f"node {plan['node']}")
    else:
        if plan["depth"] != [{j: (1 if j == axis else 0) for j in range(nd)}]:
            bad.append(f"depth {plan['depth']}")
        if plan["boundary"] != [{j: "none" for j in range(nd)}]:
            bad.append(f"boundary {plan['boundary']}")
        if not plan["allow_rechunk"] or not plan["trim"]:
            bad.append("allow_rechunk/trim")
    if plan["chunks"] != tuple(tuple(c) for c in chunks):
        bad.append(f"advertised chunks {plan['chunks']}")
    ids = sorted(r["block_id"] for r in plan["records"])
    if ids != sorted(itertools.product(*[range(len(c)) for c in chunks])):
        bad.append(f"kernel block ids {ids}")
    for r in plan["records"]:
        if r["axis"] != axis or r["kw"] != {"edge_order": eo}:
            bad.append(f"kernel axis/kwargs {r['axis']} {r['kw']}")
        for j in range(nd):
            if j != axis and r["x"].shape[j] != chunks[j][r["block_id"][j]]:
                bad.append(f"halo on axis {j}")
    got_shapes = {k: b.shape for k, b in plan["blocks"].items()}
    want_shapes = {k: tuple(chunks[j][k[j]] for j in range(nd)) for k in got_shapes}
    if got_shapes != want_shapes:
        bad.append(f"block shapes {got_shapes}")
    return bad


def fam_diff_gradient(chk, da, tier):
    from fractions import Fraction
    rng = chk.rng
    rec = _install_gradient_probe()
    thorough = tier == "thorough"
    jobs = []   # the four model comparisons run concurrently at the end

    # ---------------------------------------------------------------- gradient, scalar spacing
    inputs = []
    for n in range(1, 7 if thorough else 5):
        for c in compositions(n):
            for eo in (1, 2):
                inputs.append(((n,), (c,), 0, eo, 1))
    for _ in range(2500 if thorough else 200):
        nd = rng.choice([1, 1, 2])
        shape = tuple(rng.choice([1, 2, 3, 4, 5, 6, 8, 9, 13, 20]) for _ in range(nd))
        chunks = tuple(dg_chunks(rng, s) for s in shape)
        inputs.append((shape, chunks, rng.randrange(nd), rng.choice([1, 1, 2]), rng.choice([1, 1, 1, 2, 4, 0.5, 0.25, 3, 5])))
    cases, kept, qcases, qkept, ccases, ckept = [], [], [], [], [], []
    for shape, chunks, axis, eo, sp in inputs:
        nd = len(shape)
        a = np.array([rng.randint(-9, 9) for _ in range(int(np.prod(shape)))], dtype="int64").reshape(shape)
        info = {"shape": shape, "chunks": chunks, "axis": axis, "edge_order": eo, "spacing": sp, "data": a.tolist()}
        exact = float(sp) in (1.0, 2.0, 4.0, 0.5, 0.25)
        try:
            want = np.gradient(a, sp, axis=axis, edge_order=eo)
        except ValueError:
            want = None
        status, plan = _gradient_run(da, rec, a, chunks, sp, axis, eo)
        small = min(chunks[axis]) < eo + 1
        chk.count(f"gradient:{nd}d:eo{eo}:" + ("minchunk<guard" if small else "minchunk==guard" if min(chunks[axis]) == eo + 1 else "minchunk>guard"))
        chk.case(("gradient", shape, chunks, axis, eo, sp, a.tobytes()), nontrivial=len(chunks[axis]) > 1,
                 sample={k: info[k] for k in ("shape", "chunks", "axis", "edge_order", "spacing")})
        scale = Fraction(float(sp)) * 2
        lanes = [0] if nd == 1 else sorted({0, rng.randrange(shape[1 - axis])})
        if status == "raised":
            if not (isinstance(plan, ValueError) and GUARD_MSG in str(plan)):
                chk.violation(f"da.gradient raised: {norm_err(plan)}", info, signature={"class": "diff-gradient-raises", "fn": "gradient", "error": norm_err(plan)})
                continue
            chk.count("gradient:declined-small-chunk" + (":numpy-defined" if want is not None else ":numpy-raises-too"))
            obs = None
            if nd == 1 and exact and len(ccases) < (1500 if thorough else 90):
                # what the pipeline behind the guard would have computed on this layout
                core = _core_run(da, a, chunks, sp, eo)
                if (core is None) != (want is None) or (core is not None and not np.array_equal(np.concatenate(core), want)):
                    chk.count("gradient:pipeline-without-guard-differs-from-numpy")
                ccases.append(ctuple(cz(eo), clist(chunks[0]), clist([int(v) for v in a]),
                                     copt(None if core is None else [[_to_int(v, scale) for v in b] for b in core], cll)))
                ckept.append(info)
        else:
            full = _assemble(plan["blocks"], nd)
            if want is None:
                chk.violation("da.gradient computed although numpy.gradient raises", info, signature={"class": "diff-gradient-value", "fn": "gradient", "numpy": "raises"})
                continue
            ok = full.shape == want.shape and (np.array_equal(full, want) if exact else np.allclose(full, want, rtol=1e-12, atol=0))
            if not ok:
                chk.violation("da.gradient differs from numpy.gradient", {**info, "impl": full.tolist(), "numpy": want.tolist()},
                              signature={"class": "diff-gradient-value", "fn": "gradient", "edge_order": eo})
                continue
            for msg in _plan_problems(plan, a, chunks, axis, eo):
                chk.tie_break("correspondence:gradient-plan", {**info, "problem": msg})
            obs = True
        for lane in lanes:
            xs = [int(v) for v in (a if nd == 1 else (a[:, lane] if axis == 0 else a[lane, :]))]
            npo = None if want is None else (want if nd == 1 else (want[:, lane] if axis == 0 else want[lane, :]))
            if exact:
                np_lit = copt(None if npo is None else [_to_int(v, scale) for v in npo], clist)
                if obs is None:
                    o_lit = "None"
                else:
                    other = chunks[1 - axis] if nd == 2 else None
                    recs = {r["block_id"]: r["x"] for r in plan["records"]}
                    ext = _lane_blocks(recs, nd, axis, lane, other)
                    got = _lane_blocks(plan["blocks"], nd, axis, lane, other)
                    o_lit = "(Some " + ctuple(cll(ext), cll([[_to_int(v, scale) for v in b] for b in got])) + ")"
                cases.append(ctuple(cz(eo), clist(chunks[axis]), clist(xs), o_lit, np_lit))
                kept.append({**info, "lane": lane})
            if obs is not None and float(sp) != 1.0:
                other = chunks[1 - axis] if nd == 2 else None
                got = _lane_blocks(plan["blocks"], nd, axis, lane, other)
                qcases.append(ctuple(cz(eo), cq(Fraction(float(sp))), clist(chunks[axis]), clist(xs),
                                     cqll([[Fraction(float(v)) for v in b] for b in got]), cbool(exact)))
                qkept.append({**info, "lane": lane})
    jobs.append(((        DG_HEADER, "Z * list Z * list Z * option (list (list Z) * list (list Z)) * option (list Z)",
        "Definition chk (c : Z * list Z * list Z * option (list (list Z) * list (list Z)) * option (list Z)) : bool :=\n"
        "  let '(eo, cs, xs, obs, npo) := c in\n"
        "  olist_eqb (np_gradient2 eo xs) npo &&\n"
        "  match da_gradient2 eo (split_blocks cs xs), obs with\n"
        "  | Some res, Some (ext, got) => zlist2_eqb res got && olist2_eqb (gradient_ext (split_blocks cs xs)) (Some ext)\n"
        "  | None, None => true\n"
        "  | _, _ => false\n"
        "  end.", list(cases)), 80, "correspondence:gradient(unit/scalar spacing: guard, extended blocks, trimmed blocks, numpy definition)", list(kept)))
    jobs.append(((        DG_HEADER, "Z * Q * list Z * list Z * list (list Q) * bool",
        "Definition chk (c : Z * Q * list Z * list Z * list (list Q) * bool) : bool :=\n"
        "  let '(eo, h, cs, xs, got, exact) := c in\n"
        "  match da_gradient eo h (split_blocks cs xs) with Some res => qll_eqb exact res got | None => false end.", list(qcases)), 80, "correspondence:gradient(scalar spacing, rationals)", list(qkept)))

    jobs.append(((DG_HEADER, "Z * list Z * list Z * option (list (list Z))",
                  "Definition chk (c : Z * list Z * list Z * option (list (list Z))) : bool :=\n"
                  "  let '(eo, cs, xs, core) := c in\n"
                  "  olist2_eqb (da_gradient2_core eo (split_blocks cs xs)) core &&\n"
                  "  match np_gradient2 eo xs, core with Some g, Some r => zlist_eqb g (concat r) | None, None => true | _, _ => false end.",
                  list(ccases)), 80, "correspondence:gradient(map_overlap pipeline without the guard)", list(ckept)))

    # ---------------------------------------------------------------- gradient, coordinate arrays
    cases, kept = [], []
    for _ in range(800 if thorough else 70):
        nd = rng.choice([1, 1, 2])
        eo = rng.choice([1, 2])
        shape, chunks = [], []
        for _j in range(nd):
            parts = [rng.choice([eo + 1, eo + 1, eo + 2, 4, 5]) for _ in range(rng.choice([1, 2, 2, 3, 4]))]
            chunks.append(tuple(parts))
            shape.append(sum(parts))
        shape, chunks = tuple(shape), tuple(chunks)
        axis = rng.randrange(nd)
        a = np.array([rng.randint(-9, 9) for _ in range(int(np.prod(shape)))], dtype="int64").reshape(shape)
        uniform = rng.random() < 0.15
        steps = [rng.choice([2]) if uniform else rng.choice([1, 2, 3, 4]) for _ in range(shape[axis])]
        coord = np.cumsum(steps) + rng.randint(-5, 5)
        info = {"shape": shape, "chunks": chunks, "axis": axis, "edge_order": eo, "coords": coord.tolist(), "data": a.tolist()}
        want = np.gradient(a, coord.astype(float), axis=axis, edge_order=eo)
        status, plan = _gradient_run(da, rec, a, chunks, coord.astype(float), axis, eo)
        chk.count(f"gradient-coords:{nd}d:eo{eo}:" + ("uniform" if uniform else "nonuniform"))
        chk.case(("gradient-coords", shape, chunks, axis, eo, coord.tobytes(), a.tobytes()), nontrivial=len(chunks[axis]) > 1)
        if status == "raised":
            chk.violation(f"da.gradient(f, coords) raised: {norm_err(plan)}", info, signature={"class": "diff-gradient-raises", "fn": "gradient", "spacing": "coords", "error": norm_err(plan)})
            continue
        full = _assemble(plan["blocks"], nd)
        if full.shape != want.shape or not np.allclose(full, want, rtol=1e-10, atol=1e-12):
            chk.violation("da.gradient(f, coords) differs from numpy.gradient", {**info, "impl": full.tolist(), "numpy": want.tolist()},
                          signature={"class": "diff-gradient-value", "fn": "gradient", "spacing": "coords", "edge_order": eo})
            continue
        for msg in _plan_problems(plan, a, chunks, axis, eo):
            chk.tie_break("correspondence:gradient-plan", {**info, "problem": msg})
        wins = {}
        for r in plan["records"]:
            wins.setdefault(r["block_id"][axis], set()).add((r["win"][0], r["win"][1], tuple(r["win"][2]), (tuple(r["win"][3][0]), tuple(r["win"][3][1]))))
        if any(len(v) != 1 for v in wins.values()):
            chk.tie_break("correspondence:gradient-coords(windows differ between blocks of one position)", info)
            continue
        wl = [next(iter(wins[i])) for i in range(len(chunks[axis]))]
        locs = wl[0][3]
        lane = 0 if nd == 1 else rng.randrange(shape[1 - axis])
        other = chunks[1 - axis] if nd == 2 else None
        xs = [int(v) for v in (a if nd == 1 else (a[:, lane] if axis == 0 else a[lane, :]))]
        got = _lane_blocks(plan["blocks"], nd, axis, lane, other)
        npl = want if nd == 1 else (want[:, lane] if axis == 0 else want[lane, :])
        recs = {r["block_id"]: r["x"] for r in plan["records"]}
        ext = _lane_blocks(recs, nd, axis, lane, other)
        cases.append(ctuple(cz(eo), clist(chunks[axis]), clist(xs), clist(coord), ctuple(clist(locs[0]), clist(locs[1])),
                            cll([w[2] for w in wl]), cll(ext), cqll([[Fraction(float(v)) for v in b] for b in got]),
                            clist([Fraction(float(v)) for v in npl], cq)))
        kept.append({**info, "lane": lane, "array_locs": locs})
    jobs.append(((        DG_HEADER, "Z * list Z * list Z * list Z * (list Z * list Z) * list (list Z) * list (list Z) * list (list Q) * list Q",
        "Definition chk (c : Z * list Z * list Z * list Z * (list Z * list Z) * list (list Z) * list (list Z) * list (list Q) * list Q) : bool :=\n"
        "  let '(eo, cs, xs, coord, locs, wins, ext, got, npg) := c in\n"
        "  zlist_eqb (fst (array_locs cs)) (fst locs) && zlist_eqb (snd (array_locs cs)) (snd locs) &&\n"
        "  zlist2_eqb (coord_windows coord cs) wins && olist2_eqb (gradient_ext (split_blocks cs xs)) (Some ext) &&\n"
        "  olist2_eqb (gradient_ext (split_blocks cs coord)) (Some wins) &&\n"
        "  match da_gradient_x eo (split_blocks cs (combine xs coord)) with Some res => qll_eqb false res got | None => false end &&\n"
        "  match np_gradient_x eo (combine xs coord) with Some g => qlist_close tol g npg | None => false end.", list(cases)), 40, "correspondence:gradient(coordinates: array_locs, coordinate windows, extended blocks, values)", list(kept)))

    # ---------------------------------------------------------------- several axes at once (values only)
    for _ in range(400 if thorough else 30):
        eo = rng.choice([1, 2])
        chunks = tuple(tuple(rng.choice([eo, eo + 1, eo + 1, eo + 2, 4]) for _ in range(rng.choice([1, 2, 3]))) for _ in range(2))
        shape = tuple(sum(c) for c in chunks)
        a = np.array([rng.randint(-9, 9) for _ in range(int(np.prod(shape)))], dtype="int64").reshape(shape)
        axes = rng.choice([None, (0, 1), (1, 0), (1,), (-1, 0)])
        ax_list = (0, 1) if axes is None else tuple(v % 2 for v in axes)
        sps = [rng.choice([2, 0.5, "c"]) for _ in ax_list]
        sps = [np.cumsum([rng.choice([1, 2, 3]) for _ in range(shape[ax])]).astype(float) if v == "c" else v for v, ax in zip(sps, ax_list)]
        info = {"shape": shape, "chunks": chunks, "axis": axes, "edge_order": eo, "spacing": [v.tolist() if isinstance(v, np.ndarray) else v for v in sps], "data": a.tolist()}
        try:
            want = np.gradient(a, *sps, axis=axes, edge_order=eo)
        except (ValueError, IndexError):   # an axis shorter than edge_order + 1 (a one-point coordinate array trips NumPy itself)
            continue
        want = [want] if isinstance(want, np.ndarray) else list(want)
        guard_ok = all(min(chunks[ax]) >= eo + 1 for ax in ax_list)
        chk.count("gradient-multi-axis:" + ("guard-ok" if guard_ok else "guard-fails"))
        chk.case(("gradient-multi", shape, chunks, axes, eo, json.dumps(info["spacing"]), a.tobytes()), nontrivial=True)
        try:
            got = da.gradient(da.from_array(a, chunks=chunks), *sps, axis=axes, edge_order=eo)
            got = [g.compute() for g in (got if isinstance(got, (list, tuple)) else [got])]
        except Exception as e:  # noqa: BLE001
            if not (isinstance(e, ValueError) and GUARD_MSG in str(e) and not guard_ok):
                chk.violation(f"da.gradient (several axes) raised: {norm_err(e)}", info, signature={"class": "diff-gradient-raises", "fn": "gradient", "axes": "several", "error": norm_err(e)})
            continue
        if not guard_ok:
            chk.tie_break("correspondence:gradient-guard(several axes: a chunk below edge_order + 1 was accepted)", info)
        if len(got) != len(want) or any(g.shape != w.shape or not np.allclose(g, w, rtol=1e-10, atol=1e-12) for g, w in zip(got, want)):
            chk.violation("da.gradient (several axes) differs from numpy.gradient", {**info, "impl": [g.tolist() for g in got], "numpy": [w.tolist() for w in want]},
                          signature={"class": "diff-gradient-value", "fn": "gradient", "axes": "several"})
        else:
            chk.traces_validated += 1

    # ---------------------------------------------------------------- the result of gradient, sliced
    sl_inputs = [((3, 2, 2, 3), 1, "coords", (3, None))]
    for _ in range(150 if thorough else 16):
        eo = rng.choice([1, 2])
        parts = tuple(rng.choice([eo + 1, eo + 1, eo + 2, 4]) for _ in range(rng.choice([2, 3, 4])))
        n = sum(parts)
        lo = rng.randrange(0, n - 1)
        sl_inputs.append((parts, eo, rng.choice(["coords", "scalar"]), (lo, rng.choice([None, rng.randint(lo + 1, n)]))))
    for parts, eo, kind, (lo, hi) in sl_inputs:
        n = sum(parts)
        a = np.array([rng.randint(-9, 9) for _ in range(n)], dtype="int64")
        coord = np.cumsum([rng.choice([1, 2, 3, 4]) for _ in range(n)]).astype(float)
        sp = coord if kind == "coords" else 2
        want = np.gradient(a, sp, edge_order=eo)[lo:hi]
        info = {"chunks": parts, "edge_order": eo, "spacing": coord.tolist() if kind == "coords" else 2, "slice": (lo, hi), "data": a.tolist(),
                "repro": f"x=da.from_array(np.array({a.tolist()}), chunks=({parts},)); da.gradient(x, {'np.array(%s)' % coord.tolist() if kind == 'coords' else 2}, axis=0, edge_order={eo})[{lo}:{'' if hi is None else hi}].compute()"}
        chk.count(f"gradient-sliced:{kind}")
        chk.case(("gradient-sliced", parts, eo, kind, lo, hi, a.tobytes(), coord.tobytes()), nontrivial=True)
        try:
            got = da.gradient(da.from_array(a, chunks=(parts,)), sp, axis=0, edge_order=eo)[lo:hi].compute()
        except Exception as e:  # noqa: BLE001
            chk.violation(f"da.gradient(...)[{lo}:{hi}] raised: {norm_err(e)}", info,
                          signature={"class": "diff-gradient-value", "fn": "gradient", "via": "sliced-result", "spacing": kind, "outcome": "raises"})
            continue
        if got.shape != want.shape or not np.allclose(got, want, rtol=1e-10, atol=1e-12):
            chk.violation(f"da.gradient(...)[{lo}:{hi}] differs from numpy.gradient(...)[{lo}:{hi}]", {**info, "impl": got.tolist(), "numpy": want.tolist()},
                          signature={"class": "diff-gradient-value", "fn": "gradient", "via": "sliced-result", "spacing": kind, "outcome": "wrong-value"})
        else:
            chk.traces_validated += 1

    # ---------------------------------------------------------------- diff
    inputs = []
    for n in range(0, 5 if thorough else 4):
        for c in (compositions(n) if n else [(0,)]):
            for k in (-1, 0, 1, 2, 3, n, n + 1):
                inputs.append(((n,), (c,), 0, k, None, None))
    for _ in range(2000 if thorough else 170):
        nd = rng.choice([1, 1, 2])
        shape = tuple(rng.choice([1, 2, 3, 4, 5, 8, 13, 20]) for _ in range(nd))
        chunks = tuple(dg_chunks(rng, s) for s in shape)
        axis = rng.randrange(nd)

        def pa():
            r = rng.random()
            if r < 0.55:
                return None
            if r < 0.8:
                return rng.randint(-9, 9)
            sh = list(shape)
            sh[axis] = rng.choice([1, 2, 3])
            return np.array([rng.randint(-9, 9) for _ in range(int(np.prod(sh)))], dtype="int64").reshape(sh)
        inputs.append((shape, chunks, axis, rng.choice([-1, 0, 1, 1, 1, 2, 2, 3, 4, shape[axis], shape[axis] + 2]), pa(), pa()))
    cases, kept = [], []
    for shape, chunks, axis, k, pre, app in inputs:
        nd = len(shape)
        a = np.array([rng.randint(-9, 9) for _ in range(int(np.prod(shape)))], dtype="int64").reshape(shape)
        kw = {}
        if pre is not None:
            kw["prepend"] = pre
        if app is not None:
            kw["append"] = app
        info = {"shape": shape, "chunks": chunks, "axis": axis, "n": k, "data": a.tolist(),
                **{kk: (v.tolist() if isinstance(v, np.ndarray) else v) for kk, v in kw.items()}}
        try:
            want = np.diff(a, k, axis=axis, **kw)
        except ValueError:
            want = None
        try:
            r = da.diff(da.from_array(a, chunks=chunks), k, axis=axis, **kw)
            blocks, o = _nd_blocks(r)
            got = _assemble(blocks, nd)
            adv = tuple(tuple(int(v) for v in c) for c in o.chunks)
            real = tuple(tuple(blocks[tuple(i if jj == j else 0 for jj in range(nd))].shape[j] for i in range(len(adv[j]))) for j in range(nd))
            if adv != real:
                chk.violation("da.diff advertises chunks its blocks do not have", {**info, "advertised": adv, "blocks": real},
                              signature={"class": "diff-gradient-value", "fn": "diff", "what": "chunks"})
        except ValueError as e:
            got = None
            if "order must be non-negative" not in str(e):
                chk.violation(f"da.diff raised: {norm_err(e)}", info, signature={"class": "diff-gradient-raises", "fn": "diff", "error": norm_err(e)})
                continue
        except Exception as e:  # noqa: BLE001
            chk.violation(f"da.diff raised: {norm_err(e)}", info, signature={"class": "diff-gradient-raises", "fn": "diff", "error": norm_err(e)})
            continue
        chk.count(f"diff:{nd}d:n{'<0' if k < 0 else '=0' if k == 0 else '>len' if k > shape[axis] else k}" + (":prepend" if pre is not None else "") + (":append" if app is not None else ""))
        chk.case(("diff", shape, chunks, axis, k, repr(info.get("prepend")), repr(info.get("append")), a.tobytes()), nontrivial=len(chunks[axis]) > 1 and k > 0,
                 sample={kk: info[kk] for kk in info if kk != "data"})
        if (got is None) != (want is None) or (got is not None and (got.shape != want.shape or not np.array_equal(got, want))):
            chk.violation("da.diff differs from numpy.diff", {**info, "impl": None if got is None else got.tolist(), "numpy": None if want is None else want.tolist()},
                          signature={"class": "diff-gradient-value", "fn": "diff", "n": k})
            continue
        lane = 0 if nd == 1 else rng.randrange(shape[1 - axis])

        def ln(v):
            if v is None:
                return None
            if not isinstance(v, np.ndarray):
                return [int(v)]
            return [int(t) for t in (v if nd == 1 else (v[:, lane] if axis == 0 else v[lane, :]))]
        cases.append(ctuple(cz(k), copt(ln(pre), clist), copt(ln(app), clist), clist(ln(a)), copt(None if got is None else ln(got), clist),
                            copt(None if want is None else ln(want), clist)))
        kept.append({**info, "lane": lane})
    jobs.append(((        DG_HEADER, "Z * option (list Z) * option (list Z) * list Z * option (list Z) * option (list Z)",
        "Definition chk (c : Z * option (list Z) * option (list Z) * list Z * option (list Z) * option (list Z)) : bool :=\n"
        "  let '(n, p, q, xs, got, npo) := c in\n"
        "  olist_eqb (da_diff n p q xs) got && olist_eqb (np_diff_full n p q xs) npo &&\n"
        "  (if 0 <? n then olist_eqb (Some (np_diff_closed (Z.to_nat n) (diff_combined p q xs))) npo else true).", list(cases)), 80, "correspondence:diff(loop of slices, numpy definition, closed form)", list(kept)))



# =========================================================================================

    from concurrent.futures import ThreadPoolExecutor
    with ThreadPoolExecutor(max_workers=len(jobs)) as ex:
        results = list(ex.map(lambda jb: coq_eval_cases(*jb[0], chunk=(400 if thorough else jb[1]), jobs=4), jobs))
    for (args, _chunk, kind, keptl), (mism, _log) in zip(jobs, results):
        for i in mism[:5]:
            chk.tie_break(kind, keptl[i])
        chk.traces_validated += len(args[3]) - len(mism)



# =========================================================================================
# moving-window (bottleneck move_*) reductions on native chunks
def fam_moving(chk, da, tier):
    try:
        import bottleneck as bn
    except Exception:  # noqa: BLE001
        chk.count("moving:skipped-no-bottleneck")
        return
    from dask_array.reductions._sliding_window import MovingWindowReduction, supports_native_moving_window
    rng = chk.rng
    inputs = []
    nmax = 6 if tier == "thorough" else 4
    for n in range(2, nmax + 1):
        for c in compositions(n):
            for w in range(1, n + 2):
                inputs.append((c, w))
    for _ in range(4000 if tier == "thorough" else 350):
        n = rng.choice([2, 3, 5, 8, 13, 21, 34, 60])
        c = chunkings(rng, n)
        w = rng.choice([1, 2, 3, max(c), max(c) + 1, max(c) + 2, min(c) + 1, n // 2 + 1, n - 1, n, n + 1, rng.randint(1, n)])
        inputs.append((c, max(w, 1)))
    scases, vcases, vkept = [], [], []
    for c, w in inputs:
        n = sum(c)
        sup = bool(supports_native_moving_window(c, w))
        x0 = da.from_array(np.zeros(n), chunks=(c,))
        plan = [(int(r[0]), int(r[1]), int(r[2]), None if r[3] is None else (int(r[3]), int(r[4]))) for r in
                MovingWindowReduction(x0.expr, w, None, 0, "nansum", np.dtype(float))._block_plan]
        chk.count("moving-struct:" + ("native" if sup else "not-native"))
        chk.case(("mvstruct", c, w), nontrivial=sup, sample={"fn": "MovingWindowReduction._block_plan", "chunks": c, "window": w, "supports": sup, "plan": plan})
        scases.append(ctuple(clist(c), cz(w), cbool(sup), clist(plan, lambda r: ctuple(cz(r[0]), cz(r[1]), cz(r[2]), copt(r[3], lambda gh: ctuple(cz(gh[0]), cz(gh[1])))))))
        if w > n or w < 2:
            continue
        # values through the public API
        fname, opc = rng.choice([("move_sum", 0), ("move_sum", 0), ("move_min", 1), ("move_max", 2), ("move_mean", 3)])
        mc = rng.choice([None, None, 1, rng.randint(1, w)])
        a = np.array([np.nan if rng.random() < 0.2 else float(rng.randint(-9, 9)) for _ in range(n)])
        want = getattr(bn, fname)(a, w, **({} if mc is None else {"min_count": mc}))
        chk.count(f"moving:{fname}:" + ("native" if sup else "overlap-path") + (":min_count" if mc is not None else ""))
        try:
            x = da.from_array(a, chunks=(c,))
            y = da.map_overlap(getattr(bn, fname), x, depth={0: (w - 1, 0)}, boundary="none", window=w, dtype=float,
                               **({} if mc is None else {"min_count": mc}))
            blocks, o = real_blocks(y)
            got = np.concatenate(blocks)
            root = type(o.expr).__name__
            err = None
        except Exception as e:  # noqa: BLE001
            blocks, got, root, err = None, None, None, norm_err(e)
        chk.case(("moving", c, w, fname, mc, tuple(a.tolist())), nontrivial=len(c) > 1,
                 sample={"fn": "da.map_overlap(bn." + fname + ")", "chunks": c, "window": w, "min_count": mc, "data": a.tolist(),
                         "impl": got.tolist() if got is not None else err, "optimized_root": root})
        sig = {"fn": "moving_window", "reducer": fname}
        if err is not None:
            chk.violation("moving-window reduction raised: " + err, {"chunks": c, "window": w, "min_count": mc, "reducer": fname, "data": a.tolist()},
                          signature={**sig, "class": "raises", "error": err})
            continue
        if got.shape != want.shape or not np.allclose(got, want, rtol=1e-12, atol=0, equal_nan=True):
            chk.violation("moving-window reduction differs from bottleneck on the whole array",
                          {"chunks": c, "window": w, "min_count": mc, "reducer": fname, "data": a.tolist(), "impl": got.tolist(), "bottleneck": want.tolist()},
                          signature={**sig, "class": "wrong-value", "native": sup})
            continue
        if sup and opc != 3:
            if root != "MovingWindowReduction":
                chk.tie_break("supported (chunks, window) did not rewrite to MovingWindowReduction", {"chunks": c, "window": w, "root": root})
                continue
            onan = lambda v: None if np.isnan(v) else int(v)  # noqa: E731
            vcases.append(ctuple(cz(opc), clist(c), cz(w), cz(w if mc is None else mc), clist(a.tolist(), lambda v: copt(onan(v))),
                                 clist(blocks, lambda b: clist(b.tolist(), lambda v: copt(onan(v))))))
            vkept.append((c, w, fname, mc, a.tolist(), [b.tolist() for b in blocks]))
        else:
            chk.traces_validated += 1
    mism, _ = coq_eval_cases(
        HEADER, "list Z * Z * bool * list (Z * Z * Z * option (Z * Z))",
        "Definition r4 (a b : Z * Z * Z * option (Z * Z)) := let '(x, y, z, t) := a in let '(u, v, w, s) := b in (x =? u) && (y =? v) && (z =? w) &&\n"
        "  match t, s with None, None => true | Some (p, q), Some (p', q') => (p =? p') && (q =? q') | _, _ => false end.\n"
        "Definition chk (c : list Z * Z * bool * list (Z * Z * Z * option (Z * Z))) : bool := let '(cs, w, sup, plan) := c in\n"
        "  Bool.eqb (supports_native_moving_window cs w) sup && list_eqb r4 (moving_plan cs w) plan.",
        scases)
    for i in mism[:5]:
        chk.tie_break("correspondence:supports_native_moving_window/MovingWindowReduction._block_plan", {"chunks": inputs[i][0], "window": inputs[i][1]})
    chk.traces_validated += len(scases) - len(mism)
    mism, _ = coq_eval_cases(
        HEADER, "Z * list Z * Z * Z * list (option Z) * list (list (option Z))",
        "Definition chk (c : Z * list Z * Z * Z * list (option Z) * list (list (option Z))) : bool := let '(opc, cs, w, limit, xs, out) := c in\n"
        "  let valid := map (fun v => match v with Some _ => 1 | None => 0 end) xs in\n"
        "  let cnt := moving_native Z.add 0 cs w valid in\n"
        "  let scnt := moving_spec Z.add 0 w valid in\n"
        "  let flat (o : option (option Z)) := match o with Some v => v | None => None end in\n"
        "  let '(res, spec) := if opc =? 0 then\n"
        "      let zs := map (fun v => match v with Some z => z | None => 0 end) xs in\n"
        "      (map2 (mask_count limit) (moving_native Z.add 0 cs w zs) cnt, mask_count limit (moving_spec Z.add 0 w zs) scnt)\n"
        "    else let op := if opc =? 1 then fmin else fmax in\n"
        "      (map2 (fun v k => map flat (mask_count limit v k)) (moving_native op None cs w xs) cnt, map flat (mask_count limit (moving_spec op None w xs) scnt)) in\n"
        "  list_eqb (list_eqb oZ_eqb) res out && list_eqb oZ_eqb (concat res) spec.",
        vcases)
    for i in mism[:5]:
        c, w, fname, mc, a, blocks = vkept[i]
        chk.tie_break("correspondence:moving_native (MovingWindowReduction._block_plan + _moving_window_banded_reduce)",
                      {"chunks": c, "window": w, "reducer": fname, "min_count": mc, "data": a, "impl_blocks": blocks})
    chk.traces_validated += len(vcases) - len(mism)

# =========================================================================================
def replay(path):
    import dask_array as da
    r = json.load(open(path))
    print(json.dumps(r, indent=1)[:4000])
    d = r.get("data", {})
    if "repro" in d:
        print("repro:", d["repro"])
    print("(re-run ./check C19 to reproduce; the inputs are in `data`)")


def run(chk: Check):
    import dask_array as da
    warnings.simplefilter("ignore")
    dask.config.set(scheduler="synchronous")
    chk.rule = ("exhaustive small + structured random (n <= 60, layouts incl. blocks of 1, slivers, zero-size blocks for scans, blocks smaller "
                "than depth/window, w in 1..n): public API (cumsum/cumprod x sequential/blelloch, cumreduction over strings, sliding_window_view "
                "bare and under sum/min/max/prod/mean in 1-D and 2-D, overlap + trim_internal and map_overlap(stencil) x 5 boundary kinds x depths "
                "incl. depth > smallest block, diff, gradient, map_overlap(bottleneck move_sum/min/max/mean) with NaNs and min_count) vs NumPy / bottleneck on integer-valued data; real expression nodes "
                "(CumReductionBlelloch._layer wiring, SlidingWindowReduction.chunks/_block_plan, supports_native_sliding_window, MovingWindowReduction._block_plan, supports_native_moving_window, "
                "_overlap_internal_chunks, ensure_minimum_chunksize, _get_overlap_rechunked_chunks) and the per-block outputs of the optimized "
                "graphs vs the Gallina models evaluated in Coq; non-trivial = more than one block and window/depth > trivial")
    chk.rule += ("; diff / gradient (fam_diff_gradient): exhaustive layouts of n <= 4 (5 in thorough) + structured random 1-D / 2-D integer arrays with chunks of 1, 2, 3 "
                 "next to gradient's guard, every axis, edge_order 1 / 2, spacing 1, 2, 4, 1/2, 1/4, 3, 5 and non-uniform / uniform integer coordinate arrays, "
                 "diff n in -1..len+2 with scalar / array prepend / append: the real plan (MapOverlap node, depth, boundary, advertised chunks, and -- recorded by "
                 "wrapping _gradient_kernel -- block ids, extended blocks, array_locs and the coordinate windows) and the exact values (2h * gradient as integers, "
                 "rationals) vs DiffGrad.v evaluated in Coq; the map_overlap pipeline run without the guard; sliced gradient results vs NumPy")
    chk.assumptions = ["math.log2 in the Blelloch down-sweep start is exact on the block counts used (the wiring is read back and compared for every generated count)",
                       "N-D behaviour is the 1-D behaviour per index of the other axes (checked against NumPy only, 2-D)",
                       "integer data: int64 without overflow on the generated domain",
                       "gradient with coordinate arrays / spacings that are not powers of two: the float results are compared with the exact rational model "
                       "within 1e-9 relative (inside Coq, Qle_bool); NumPy's shortcut to the scalar formulas for equally spaced coordinates is not modelled "
                       "(same rational values)"]
    chk.trusted_base = ["block extraction through dask.local.get_sync on the optimized collection (harness/c19.py:real_blocks/_blocks_of)"]
    chk.run_proofs()
    fam_sliding_values(chk, da, chk.tier)
    fam_sliding_struct(chk, da, chk.tier)
    fam_nested(chk, da, chk.tier)
    fam_scan(chk, da, chk.tier)
    fam_scan_variants(chk, da, chk.tier)
    fam_overlap_struct(chk, da, chk.tier)
    fam_overlap_values(chk, da, chk.tier)
    fam_sliced_results(chk, da, chk.tier)
    fam_overlap_2d(chk, da, chk.tier)
    fam_sliding_multi_axis(chk, da, chk.tier)
    fam_diff_gradient_values(chk, da, chk.tier)
    fam_diff_gradient(chk, da, chk.tier)
    fam_moving(chk, da, chk.tier)
