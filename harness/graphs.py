"""Task-graph layer of the harness: reify a dask graph into the Coq model of
coq/theories/Graph.v and run the proved checker on it.

    g, ids, dangling = reify(arr.__dask_graph__(), arr.__dask_keys__())
    order = topo_order(g)                       # untrusted certificate (Python Kahn)
    bad = coq_check_graphs([(g, order, arr.numblocks, block_indices(arr.__dask_keys__()),
                             out_ids(ids, arr.__dask_keys__()))])

Coq side (all proved in GraphFacts.v, stated in Properties/C04.v):
  graph_check_b g order outs = true  ->  no duplicate keys, `order` is a topological order of g
                                         (hence g is closed and acyclic), every key in outs is defined
  keys_okN_b nb idx = true          <->  idx is the row-major grid of block indices over nb

Keys are numbered 1.. (Coq `positive`): measured on a 3000-task graph, `nat` literals take
~90 s just to parse, binary literals 2 s, and the check itself 10 ms (PositiveMap)."""
from __future__ import annotations

import heapq
import time

from common import clist, coq_eval_cases, ctuple

# `mismatches` is what common.coq_eval_cases evaluates; it is re-defined here (same text as in
# PyBase.v) so that the generated files need not load PyBase and its ZArith/Lia closure (1-2 s each)
HEADER = ("From DA Require Import Graph.\n"
          "From Coq Require Import List PArith NArith.\nImport ListNotations.\n"
          "Fixpoint mismatches_from {A} (i : nat) (chk : A -> bool) (l : list A) : list nat :=\n"
          "  match l with [] => [] | x :: t => if chk x then mismatches_from (S i) chk t\n"
          "                                    else i :: mismatches_from (S i) chk t end.\n"
          "Definition mismatches {A} (chk : A -> bool) (l : list A) : list nat := mismatches_from 0%nat chk l.\n"
          "Open Scope positive_scope.\n")
CASE_TYPE = "graph * list key * list key * list N * list (list N)"
CHECK_DEF = ("Definition chk (c : " + CASE_TYPE + ") : bool :=\n"
             "  let '(g, order, outs, nb, idx) := c in graph_check_b g order outs && keys_okN_b nb idx.")


# --------------------------------------------------------------------------
def flatten_keys(keys):
    """`__dask_keys__()` (arbitrarily nested lists of tuple keys) -> flat list, row-major"""
    out = []

    def rec(x):
        if isinstance(x, list):
            for y in x:
                rec(y)
        else:
            out.append(x)
    rec(keys)
    return out


def block_indices(keys):
    """output keys `(name, i, j, ...)` -> list of block-index tuples, in the order given"""
    return [tuple(k[1:]) for k in flatten_keys(keys)]


def key_names(keys):
    """set of names used by the output keys"""
    return {k[0] for k in flatten_keys(keys)}


def node_dependencies(dsk):
    """key -> frozenset of dependency keys, reading the graph the way dask's schedulers do:
    GraphNodes report `.dependencies`; legacy entries (task tuples, key aliases, raw data such
    as ndarrays) go through dask._task_spec.convert_legacy_task first."""
    from dask._task_spec import GraphNode, convert_legacy_task
    all_keys = None
    deps = {}
    for k, v in dsk.items():
        if isinstance(v, GraphNode):
            deps[k] = frozenset(v.dependencies)
            continue
        if all_keys is None:
            all_keys = set(dsk)
        t = convert_legacy_task(k, v, all_keys)
        deps[k] = frozenset(t.dependencies) if isinstance(t, GraphNode) else frozenset()
    return deps


def _sort_key(k):
    return (str(k), type(k).__name__)


def reify(dsk, out_keys=()):
    """Number the keys of a dask graph (1.., sorted by `str`; dependency keys that the graph does
    not define and output keys are numbered too, so that Coq sees them).
    Returns (g, ids, dangling):
      g        : list of (id, sorted list of dependency ids), sorted by id — one entry per graph key
      ids      : dict key -> id
      dangling : sorted list of (key, missing dependency key) pairs"""
    deps = node_dependencies(dsk)
    universe = set(deps)
    for ds in deps.values():
        universe |= ds
    universe |= set(flatten_keys(list(out_keys)))
    ids = {k: i + 1 for i, k in enumerate(sorted(universe, key=_sort_key))}
    g = sorted((ids[k], sorted(ids[d] for d in ds)) for k, ds in deps.items())
    dangling = sorted(((k, d) for k, ds in deps.items() for d in ds if d not in deps),
                      key=lambda p: (_sort_key(p[0]), _sort_key(p[1])))
    return g, ids, dangling


def out_ids(ids, out_keys):
    return [ids[k] for k in flatten_keys(out_keys)]


def topo_order(g, rng=None):
    """Kahn.  A topological order of g (list of ids) or None if g has a dependency cycle.
    Dependencies on ids that g does not define are ignored here (the Coq checker rejects them).
    Deterministic (smallest ready id first) unless `rng` is given (uniformly random ready id:
    used to sample many different topological orders)."""
    defined = {k for k, _ in g}
    if len(defined) != len(g):
        return None             # duplicate keys: no certificate exists
    indeg = {}
    users = {}
    for k, ds in g:
        ds = {d for d in ds if d in defined}
        indeg[k] = len(ds)
        for d in ds:
            users.setdefault(d, []).append(k)
    ready = [k for k, n in indeg.items() if n == 0]
    order = []
    if rng is None:
        heapq.heapify(ready)
    while ready:
        if rng is None:
            k = heapq.heappop(ready)
        else:
            i = rng.randrange(len(ready))
            ready[i], ready[-1] = ready[-1], ready[i]
            k = ready.pop()
        order.append(k)
        for u in users.get(k, ()):
            indeg[u] -= 1
            if indeg[u] == 0:
                if rng is None:
                    heapq.heappush(ready, u)
                else:
                    ready.append(u)
    return order if len(order) == len(g) else None


def is_topological(g, order):
    """Python-side mirror of the Coq checker (for quick pre-checks and for tests of the tests)."""
    deps = dict(g)
    if len(deps) != len(g) or len(order) != len(g):
        return False
    seen = set()
    for k in order:
        if k not in deps or k in seen or any(d not in seen for d in deps[k]):
            return False
        seen.add(k)
    return True


# --------------------------------------------------------------------------
def cpos(x):
    x = int(x)
    if x < 1:
        raise ValueError("graph ids are positive")
    return str(x)


def cN(x):
    x = int(x)
    if x < 0:
        raise ValueError("block indices are non-negative")
    return str(x)


def case_literal(case):
    g, order, numblocks, idx = case[:4]
    outs = case[4] if len(case) > 4 else []
    if order is None:           # no certificate (cyclic): offer the keys in graph order; Coq rejects
        order = [k for k, _ in g]
    gl = clist(g, lambda kd: ctuple(cpos(kd[0]), clist(kd[1], cpos)))
    return ctuple(gl, clist(order, cpos), clist(outs, cpos),
                  "(" + clist(numblocks, cN) + ")%N",
                  "(" + clist(idx, lambda i: clist(i, cN)) + ")%N")


def case_size(case):
    g = case[0]
    return len(g) + sum(len(ds) for _, ds in g) + len(case[3])


# (size limit, cases per generated .v file): keeps every file below ~30k numerals (coqc needs
# ~0.5 s to start + ~1 s per 10k numerals); the buckets run concurrently, and each bucket's files too
BUCKETS = ((150, 60), (1500, 8), (15000, 2), (float("inf"), 1))


def coq_check_graphs(cases, timeout=900, stats=None):
    """cases: list of (g, order, numblocks, out_block_indices[, out_ids]).
    Evaluates  graph_check_b g order out_ids && keys_okN_b numblocks out_block_indices  inside Coq
    (vm_compute) for every case; returns the sorted indices of the cases that FAIL."""
    from concurrent.futures import ThreadPoolExecutor
    buckets = [[] for _ in BUCKETS]
    for i, c in enumerate(cases):
        sz = case_size(c)
        for b, (limit, _) in enumerate(BUCKETS):
            if sz <= limit:
                buckets[b].append(i)
                break

    def run_bucket(b):
        idxs = buckets[b]
        if not idxs:
            return []
        t0 = time.time()
        lits = [case_literal(cases[i]) for i in idxs]
        mism, _ = coq_eval_cases(HEADER, CASE_TYPE, CHECK_DEF, lits, chunk=BUCKETS[b][1], timeout=timeout)
        if stats is not None:
            stats.append({"bucket_limit": BUCKETS[b][0], "cases": len(idxs), "seconds": round(time.time() - t0, 2)})
        return [idxs[j] for j in mism]

    with ThreadPoolExecutor(max_workers=len(BUCKETS)) as ex:
        failing = [i for part in ex.map(run_bucket, range(len(BUCKETS))) for i in part]
    return sorted(failing)


def array_case(arr):
    """(case, info) for one dask_array collection: the C04 structural check of its own graph."""
    dsk = arr.__dask_graph__()
    keys = arr.__dask_keys__()
    g, ids, dangling = reify(dsk, keys)
    order = topo_order(g)
    case = (g, order, tuple(arr.numblocks), block_indices(keys), out_ids(ids, keys))
    return case, {"tasks": len(g), "dangling": dangling, "cyclic": order is None, "ids": ids,
                  "names": key_names(keys)}


# --------------------------------------------------------------------------
def _selftest(n_programs=50, seed=0):
    import random
    import warnings
    warnings.simplefilter("ignore")
    import dask_array as da
    import progs

    rng = random.Random(seed)
    t0 = time.time()
    cases, infos = [], []
    built = 0
    for prog, sources, _want in progs.gen_programs(rng, n_programs):
        try:
            arr = progs.build(prog, da, sources)
        except Exception as e:  # noqa: BLE001  (generator produced a program dask_array rejects)
            print("  build failed:", type(e).__name__, str(e)[:60])
            continue
        try:
            case, info = array_case(arr)
        except Exception as e:  # noqa: BLE001  (lazy failure inside dask_array while lowering: not our subject)
            print("  graph construction failed:", type(e).__name__, str(e)[:60], "--", progs.show(prog)[:100])
            continue
        built += 1
        assert is_topological(case[0], case[1]), "python Kahn produced a bad order"
        assert not info["dangling"], info["dangling"]
        assert info["names"] == {arr.name}, (info["names"], arr.name)
        cases.append(case)
        infos.append(info)
        # a second, random topological order of the same graph must be accepted as well
        cases.append((case[0], topo_order(case[0], rng), case[2], case[3], case[4]))
        infos.append(info)
    t_build = time.time() - t0
    sizes = sorted(i["tasks"] for i in infos[::2])
    print(f"built {built} programs in {t_build:.1f}s; graph sizes min/median/max = "
          f"{sizes[0]}/{sizes[len(sizes) // 2]}/{sizes[-1]} tasks")

    # deliberately broken graphs
    base = cases[0]
    g0 = base[0]
    cyclic = [(1, [3]), (2, [1]), (3, [2]), (4, [])]
    dangling = [(1, []), (2, [1, 9])]
    dupkey = [(1, []), (1, []), (2, [1])]
    negatives = [
        ("cyclic graph (no certificate)", (cyclic, topo_order(cyclic), (1,), [(0,)], [4])),
        ("cyclic graph (forged certificate)", (cyclic, [4, 1, 2, 3], (1,), [(0,)], [4])),
        ("dangling dependency", (dangling, topo_order(dangling), (1,), [(0,)], [2])),
        ("duplicate key", (dupkey, [1, 2], (1,), [(0,)], [2])),
        ("output key not defined", (g0, base[1], base[2], base[3], [len(g0) + 7])),
        ("certificate not topological", (g0, list(reversed(base[1])), base[2], base[3], base[4]))
        if len(g0) > 1 and not is_topological(g0, list(reversed(base[1]))) else
        ("certificate too short", (g0, base[1][:-1], base[2], base[3], base[4])),
        ("key grid in the wrong order", ([(1, []), (2, [])], [1, 2], (2,), [(1,), (0,)], [1, 2])),
        ("key grid incomplete", ([(1, []), (2, [])], [1, 2], (2, 2), [(0, 0), (0, 1), (1, 0)], [1, 2])),
    ]
    assert topo_order(cyclic) is None and topo_order(dangling) == [1, 2]
    n_pos = len(cases)
    cases.extend(c for _, c in negatives)

    stats = []
    t0 = time.time()
    bad = coq_check_graphs(cases, stats=stats)
    t_coq = time.time() - t0
    print(f"coq_check_graphs: {len(cases)} cases in {t_coq:.1f}s  ({100 * t_coq / len(cases):.1f}s per 100 graphs)  {stats}")
    bad_pos = [i for i in bad if i < n_pos]
    print(f"real graphs rejected: {bad_pos}")
    ok = not bad_pos
    for j, (what, _) in enumerate(negatives):
        rejected = (n_pos + j) in bad
        print(f"  {'rejected' if rejected else 'ACCEPTED (BUG)'}: {what}")
        ok = ok and rejected

    # one big synthetic graph (3000 tasks) for the performance figure
    rng2 = random.Random(1)
    perm = list(range(1, 3001))
    rng2.shuffle(perm)
    big = sorted((k, sorted({perm[rng2.randrange(i)] for _ in range(min(i, rng2.choice([0, 1, 2, 3, 4])))}))
                 for i, k in enumerate(perm))
    idx = [(i,) for i in range(3000)]
    t0 = time.time()
    bad_big = coq_check_graphs([(big, topo_order(big), (3000,), idx, [perm[-1]]),
                                (big, topo_order(big, rng2), (3000,), idx, [perm[0]])])
    print(f"2 synthetic graphs of 3000 tasks / 3000 output keys: {time.time() - t0:.1f}s, rejected: {bad_big}")
    ok = ok and not bad_big
    print("SELFTEST", "OK" if ok else "FAILED")
    return 0 if ok else 1


if __name__ == "__main__":
    import sys
    sys.exit(_selftest(int(sys.argv[1]) if len(sys.argv) > 1 else 50))
