"""Shared machinery for every check: Coq build / evaluation, evidence, replay
files, known findings, the violation protocol.

Run under /venv/bin/python with PYTHONPATH=/repo (the driver enforces it)."""
from __future__ import annotations

import fcntl
import hashlib
import json
import os
import random
import re
import shutil
import subprocess
import sys
import tempfile
import time
from concurrent.futures import ThreadPoolExecutor

VERIF = os.path.dirname(os.path.dirname(os.path.abspath(__file__)))
REPO = os.environ.get("VERIF_REPO", "/repo")
COQ = os.path.join(VERIF, "coq")
EVIDENCE = os.path.join(VERIF, "evidence")
REPLAYS = os.path.join(VERIF, "replays")
SCRATCH_ROOT = "/var/tmp"
COQ_ARGS = ["-R", os.path.join(COQ, "theories"), "DA", "-R", os.path.join(COQ, "Properties"), "DA.Properties",
            "-R", os.path.join(COQ, "Generated"), "DA.Generated"]

FORBIDDEN = re.compile(
    r"\b(Admitted|admit|Axiom|Parameter|Conjecture|Admit Obligations|bypass_check|native_compute)\b"
    r"|Unset\s+Guard|Unset\s+Positivity|Unset\s+Universe|type-in-type|impredicative-set"
)


def sh(cmd, timeout=600, cwd=None, env=None):
    p = subprocess.run(cmd, shell=isinstance(cmd, str), cwd=cwd, env=env, timeout=timeout,
                       stdout=subprocess.PIPE, stderr=subprocess.STDOUT, text=True)
    return p.returncode, p.stdout


# --------------------------------------------------------------------------
# Coq literals
def cz(x):
    x = int(x)
    return f"({x})" if x < 0 else str(x)


def copt(x, f=cz):
    return "None" if x is None else f"(Some {f(x)})"


def clist(xs, f=cz):
    return "[" + "; ".join(f(x) for x in xs) + "]"


def ctuple(*parts):
    return "(" + ", ".join(parts) + ")"


def cbool(b):
    return "true" if b else "false"


def cslice(s):
    return f"(mkslice {copt(s.start)} {copt(s.stop)} {copt(s.step)})"


def cnat(x):
    return f"{int(x)}%nat"


# --------------------------------------------------------------------------
# Coq build and evaluation
def coq_scan_forbidden():
    bad = []
    for root, _dirs, files in os.walk(COQ):
        for f in files:
            if f.endswith(".v"):
                p = os.path.join(root, f)
                txt = open(p).read()
                # strip comments (non-nested is enough for the gate: nested ones only hide more)
                stripped = re.sub(r"\(\*.*?\*\)", "", txt, flags=re.S)
                for m in FORBIDDEN.finditer(stripped):
                    bad.append(f"{os.path.relpath(p, COQ)}: {m.group(0)}")
    return bad


def coq_make(timeout=3000, target=None):
    """Full .vo build of the development (incremental, keeps going past a failing file), serialised by a lock.
    With `target` (e.g. "Properties/C05.vo") only that file and what it depends on."""
    lock = open(os.path.join(COQ, ".build.lock"), "w")
    fcntl.flock(lock, fcntl.LOCK_EX)
    try:
        if not os.path.exists(os.path.join(COQ, "Makefile")) or \
                os.path.getmtime(os.path.join(COQ, "Makefile")) < os.path.getmtime(os.path.join(COQ, "_CoqProject")):
            sh("coq_makefile -f _CoqProject -o Makefile", cwd=COQ)
        rc, out = sh(f"timeout {timeout} make -k -j{os.cpu_count() or 8}" + (f" {target}" if target else ""), cwd=COQ, timeout=timeout + 30)
        return rc == 0, out
    finally:
        fcntl.flock(lock, fcntl.LOCK_UN)
        lock.close()


def coq_compile_file(path, timeout=900):
    """coqc one file (to a scratch .vo) and return (ok, output)."""
    d = tempfile.mkdtemp(prefix="verif-coqc-", dir=SCRATCH_ROOT)
    try:
        base = os.path.basename(path)
        dst = os.path.join(d, base)
        shutil.copy(path, dst)
        rc, out = sh(["timeout", str(timeout), "coqc", *COQ_ARGS, "-o", dst + "o", dst], timeout=timeout + 30)
        return rc == 0, out
    finally:
        shutil.rmtree(d, ignore_errors=True)


def proof_stage(pid, extra_files=()):
    """Build everything, then re-compile Properties/<pid>.v capturing Print
    Assumptions.  Returns a dict with obligations/discharged/axioms/failures."""
    res = {"obligations": 0, "discharged": 0, "axioms": [], "failures": [], "theorems": []}
    bad = coq_scan_forbidden()
    if bad:
        res["failures"].append({"kind": "forbidden-construct", "where": bad})
    ok, out = coq_make()
    if not ok:
        # a file outside this property's dependency cone may be what fails (e.g. the regenerated import graph of C26 while
        # another property is checked): this property's own obligations are decided by ITS cone only
        ok_all, out_all = ok, out
        ok, out = coq_make(target=f"Properties/{pid}.vo")
        if ok:
            res["unrelated_build_failure"] = out_all[-600:]
    prop = os.path.join(COQ, "Properties", f"{pid}.v")
    src = open(prop).read()
    thms = re.findall(r"^\s*(?:Theorem|Lemma|Corollary|Example)\s+(\w+)", src, flags=re.M)
    res["theorems"] = thms
    res["obligations"] = len(thms)
    if not ok:
        err = out[-3000:]
        res["failures"].append({"kind": "coq-build-failed", "log_tail": err})
        # which file failed?
        m = re.search(r'File "([^"]+)", line (\d+)', out)
        if m:
            res["failures"][-1]["file"] = m.group(1)
            res["failures"][-1]["line"] = int(m.group(2))
        return res
    ok2, out2 = coq_compile_file(prop)
    if not ok2:
        res["failures"].append({"kind": "property-file-failed", "log_tail": out2[-3000:]})
        return res
    res["discharged"] = len(thms)
    # Print Assumptions output
    closed = len(re.findall(r"Closed under the global context", out2))
    axioms = set()
    for m in re.finditer(r"Axioms:\s*\n((?:.+\n?)+?)(?=\n\S|\Z)", out2):
        for line in m.group(1).splitlines():
            mm = re.match(r"^(\S+)\s*:", line)
            if mm:
                axioms.add(mm.group(1))
    res["closed_count"] = closed
    res["axioms"] = sorted(axioms)
    n_print = len(re.findall(r"Print Assumptions", src))
    res["print_assumptions"] = n_print
    return res


def coq_eval_cases(header, case_type, check_def, cases, chunk=400, timeout=900, jobs=None):
    """Evaluate `check_def : case_type -> bool` (Coq text defining `chk`) on the
    given case literals inside Coq (vm_compute).  Returns (mismatch indices, log)."""
    if not cases:
        return [], ""
    d = tempfile.mkdtemp(prefix="verif-cases-", dir=SCRATCH_ROOT)
    files = []
    try:
        for k in range(0, len(cases), chunk):
            part = cases[k:k + chunk]
            name = f"cases_{k // chunk}"
            path = os.path.join(d, name + ".v")
            with open(path, "w") as f:
                f.write(header + "\n")
                f.write(check_def + "\n")
                f.write(f"Definition cases : list ({case_type}) :=\n [ " + ";\n   ".join(part) + " ].\n")
                f.write("Eval vm_compute in (mismatches chk cases).\n")
            files.append((k, path))

        def run(item):
            k, path = item
            rc, out = sh(["timeout", str(timeout), "coqc", *COQ_ARGS, path], timeout=timeout + 30)
            return k, rc, out

        with ThreadPoolExecutor(max_workers=jobs or min(12, os.cpu_count() or 8)) as ex:
            results = list(ex.map(run, files))
        mism, logs = [], []
        for k, rc, out in results:
            if rc != 0:
                logs.append(out[-2000:])
                raise RuntimeError("coqc failed on generated cases file:\n" + out[-2000:])
            m = re.search(r"=\s*(\[.*?\])\s*:\s*list nat", out, flags=re.S)
            if not m:
                raise RuntimeError("cannot parse coqc output:\n" + out[-2000:])
            for num in re.findall(r"\d+", m.group(1)):
                mism.append(k + int(num))
        return sorted(mism), "\n".join(logs)
    finally:
        shutil.rmtree(d, ignore_errors=True)


def coq_eval_expr(header, exprs, timeout=300):
    """Evaluate a few Coq expressions; returns list of raw printed results."""
    d = tempfile.mkdtemp(prefix="verif-eval-", dir=SCRATCH_ROOT)
    try:
        path = os.path.join(d, "ev.v")
        with open(path, "w") as f:
            f.write(header + "\n")
            for e in exprs:
                f.write(f"Eval vm_compute in ({e}).\n")
        rc, out = sh(["timeout", str(timeout), "coqc", *COQ_ARGS, path], timeout=timeout + 30)
        if rc != 0:
            return [f"<coqc error: {out[-500:]}>"] * len(exprs)
        parts = re.split(r"^\s*= ", out, flags=re.M)[1:]
        return [" ".join(p.split()) for p in parts]
    finally:
        shutil.rmtree(d, ignore_errors=True)


# --------------------------------------------------------------------------
# Known findings
def load_known(pid):
    p = os.path.join(VERIF, "known_findings.json")
    if not os.path.exists(p):
        return []
    data = json.load(open(p))
    return [e for e in data.get("findings", []) if e.get("property") == pid and e.get("status") == "known"]


# --------------------------------------------------------------------------
class Check:
    """One run of one property's check.  Collects coverage, failures, writes the
    evidence file and prints the VIOLATION / KNOWN-FINDING lines."""

    def __init__(self, pid, tier, seed):
        self.pid, self.tier, self.seed = pid, tier, seed
        self.t0 = time.time()
        self.rng = random.Random(seed * 1000003 + int(hashlib.sha1(pid.encode()).hexdigest()[:6], 16))
        self.evaluations = 0
        self.nontrivial = set()
        self.samples = []
        self.hist = {}
        self.violations = []          # property-level failing inputs (dicts)
        self.tie_breaks = []          # proof / correspondence breaks (dicts)
        self.known_hits = []
        self.known = load_known(pid)
        self.proof = None
        self.extra = {}
        self.assumptions = []
        self.trusted_base = []
        self.rule = ""
        self.traces_validated = 0

    # ---- bookkeeping
    def count(self, key, n=1):
        self.hist[key] = self.hist.get(key, 0) + n

    def case(self, canon, nontrivial=True, sample=None):
        self.evaluations += 1
        if nontrivial:
            self.nontrivial.add(hashlib.sha1(repr(canon).encode()).hexdigest()[:16])
        if sample is not None and len(self.samples) < 8:
            self.samples.append(sample)

    def match_known(self, v):
        """A violation matches a known finding when the finding's `match` dict is
        a sub-dict of the violation's `signature`."""
        sig = v.get("signature", {})
        for k in self.known:
            m = k.get("match", {})
            if m and all(sig.get(a) == b for a, b in m.items()):
                return k
        return None

    def violation(self, what, data, signature=None):
        v = {"what": what, "data": data, "signature": signature or {}}
        k = self.match_known(v)
        if k is not None:
            if k["id"] not in [h["id"] for h in self.known_hits]:
                self.known_hits.append(k)
            return False
        self.violations.append(v)
        return True

    def tie_break(self, kind, data):
        self.tie_breaks.append({"kind": kind, "data": data})

    # ---- proof stage
    def run_proofs(self):
        self.proof = proof_stage(self.pid)
        for f in self.proof["failures"]:
            self.tie_break("proof:" + f["kind"], f)
        return self.proof

    # ---- finish
    def write_replay(self, payload):
        os.makedirs(REPLAYS, exist_ok=True)
        h = hashlib.sha1(json.dumps(payload, sort_keys=True, default=str).encode()).hexdigest()[:10]
        path = os.path.join(REPLAYS, f"{self.pid}-{h}.json")
        with open(path, "w") as f:
            json.dump(payload, f, indent=1, default=str)
        return path

    def finish(self):
        wall = time.time() - self.t0
        rc = 0
        lines = []
        for k in self.known_hits:
            lines.append(f"KNOWN-FINDING: property={self.pid} {k['id']} {k['what']}")
        if self.violations:
            rc = 1
            # smallest first
            self.violations.sort(key=lambda v: len(json.dumps(v, default=str)))
            seen = set()
            for v in self.violations[:5]:
                key = json.dumps(v.get("signature") or v["what"], sort_keys=True, default=str)
                if key in seen:
                    continue
                seen.add(key)
                path = self.write_replay({"property": self.pid, "kind": "failing-input", "seed": self.seed,
                                          "tier": self.tier, **v,
                                          "replay_cmd": f"./check {self.pid} --replay <this file>"})
                lines.append(f"VIOLATION property={self.pid} replay={path}")
        elif self.tie_breaks:
            rc = 1
            path = self.write_replay({"property": self.pid, "kind": "tie-broken", "seed": self.seed,
                                      "tier": self.tier,
                                      "no_longer_checks": self.tie_breaks[:10],
                                      "note": "a proof obligation or the model/implementation correspondence no "
                                              "longer checks and the search found no input on which the property "
                                              "itself fails"})
            lines.append(f"VIOLATION property={self.pid} replay={path} no-failing-input-found")
        proof = self.proof or {"obligations": 0, "discharged": 0, "axioms": [], "theorems": []}
        cov = {
            "obligations": proof["obligations"],
            "discharged": proof["discharged"],
            "checker_cmd": f"make -C coq (coqc 8.16.1, full .vo) && coqc coq/Properties/{self.pid}.v  [Print Assumptions]",
            "trusted_base": [
                "Coq 8.16.1 kernel + vm_compute (no native_compute)",
                "axioms reported by Print Assumptions: " + (", ".join(proof["axioms"]) if proof["axioms"] else
                                                            "none (Closed under the global context)"),
                "harness/*.py comparators and generators; Python->Coq literal printer (harness/common.py)",
                *self.trusted_base,
            ],
            "theorems": proof.get("theorems", []),
            "closed_under_global_context": proof.get("closed_count", 0),
            "evaluations": self.evaluations,
            "distinct_nontrivial": len(self.nontrivial),
            "rule": self.rule,
            "samples": self.samples[:8] or ["<none>"],
            "traces_validated_against_impl": self.traces_validated,
            "input_distribution": dict(sorted(self.hist.items())),
            "known_findings_reproduced": [k["id"] for k in self.known_hits],
            "tie_breaks": len(self.tie_breaks),
            **self.extra,
        }
        placeholder = bool(proof.get("theorems")) and all("placeholder" in t for t in proof.get("theorems", []))
        ev = {
            "property_id": self.pid,
            "tier": self.tier,
            "seed": self.seed,
            "level": "exploration" if placeholder else "proof",
            "coverage": cov,
            "assumptions": self.assumptions,
            "wall_s": round(wall, 2),
            "violations": len(self.violations) + (1 if (self.tie_breaks and not self.violations) else 0),
        }
        os.makedirs(EVIDENCE, exist_ok=True)
        tmp = os.path.join(EVIDENCE, f".{self.pid}.json.tmp")
        with open(tmp, "w") as f:
            json.dump(ev, f, indent=1, default=str)
        os.replace(tmp, os.path.join(EVIDENCE, f"{self.pid}.json"))
        for ln in lines:
            print(ln)
        sigs = {}
        for v in self.violations:
            key = json.dumps(v.get("signature") or v["what"], sort_keys=True, default=str)
            sigs[key] = sigs.get(key, 0) + 1
        if sigs:
            print(f"[{self.pid}] violation classes: {sigs}")
        print(f"[{self.pid}] tier={self.tier} seed={self.seed} proofs {proof['discharged']}/{proof['obligations']} "
              f"evaluations={self.evaluations} nontrivial={len(self.nontrivial)} "
              f"violations={len(self.violations)} tie_breaks={len(self.tie_breaks)} "
              f"known={len(self.known_hits)} wall={wall:.1f}s")
        sys.stdout.flush()
        return rc


def err_kind(exc):
    """Map an exception to a small enum."""
    if isinstance(exc, NotImplementedError):
        return "NotImplemented"
    if isinstance(exc, IndexError):
        return "IndexError"
    if isinstance(exc, ValueError):
        return "ValueError"
    if isinstance(exc, TypeError):
        return "TypeError"
    if isinstance(exc, AssertionError):
        return "AssertionError"
    if isinstance(exc, KeyError):
        return "KeyError"
    return type(exc).__name__
