"""Reification of real expression nodes into the naming model of coq/theories/Names.v, and the
Python-side content fingerprints (shared by the C06 and C07 checks).

Every non-expression operand becomes an ATOM: the interned string dask's own tokenizer produces for it
(`_tokenize_deterministic(op)`), so atom equality is exactly the equality the real tokenizer sees for leaves.
What the model has to get right — and what is compared with the implementation — is the STRUCTURE: which
operands enter a name, that children enter through their token, the hand-built names."""
from __future__ import annotations

import contextlib

import tlz as toolz
from dask._expr import Expr
from dask.tokenize import TokenizationError, _tokenize_deterministic


class Unmodelled(Exception):
    pass


class StructureChanged(Exception):
    """a hand-built name is no longer assembled from the ingredients the model assumes"""


# --------------------------------------------------------------------------
# recorders: the two modules that hand-build names call a module-level `tokenize`; wrapping it (from the
# harness process only) remembers the arguments behind every hash that ends up inside a name.  (Random's
# parent-visible token is H(type, _name) since the repair of finding C06-A: nothing of the tokenizer is touched.)
RECORDED = {}          # hash -> args
BASES = {}             # _name -> FromArray node that a region / rechunk was pushed into (may be an intermediate)


@contextlib.contextmanager
def recording():
    import dask_array.io._from_array as fa
    import dask_array.random._expr as rx

    def rec(orig):
        def wrapped(*a, **k):
            h = orig(*a, **k)
            RECORDED[h] = a
            return h
        wrapped.__wrapped__ = orig
        return wrapped

    def remember_base(orig):
        def wrapped(self, *a, **k):
            BASES.setdefault(self._name, self)
            return orig(self, *a, **k)
        return wrapped

    old = (fa.tokenize, rx.tokenize, fa.FromArray._accept_slice, fa.FromArray._with_chunks)
    fa.tokenize, rx.tokenize = rec(fa.tokenize), rec(rx.tokenize)
    fa.FromArray._accept_slice = remember_base(old[2])
    fa.FromArray._with_chunks = remember_base(old[3])
    try:
        yield
    finally:
        fa.tokenize, rx.tokenize, fa.FromArray._accept_slice, fa.FromArray._with_chunks = old


# --------------------------------------------------------------------------
def has_expr(op):
    if isinstance(op, Expr):
        return True
    if isinstance(op, (list, tuple)):
        return any(has_expr(o) for o in op)
    if isinstance(op, dict):
        return any(has_expr(o) for o in op.values())
    return False


def tokenizer_owner(T):
    for c in T.__mro__:
        if "__dask_tokenize__" in c.__dict__:
            return c.__name__
    return "?"


class Reifier:
    """Builds Coq `expr` terms (shared through let-bindings) for real nodes."""

    def __init__(self):
        self.atoms = {("str", "getitem"): 0}     # atom 0 = the prefix "getitem" (pfx_getitem of the model)
        self.real_names = {}
        self.real_tokens = {}
        self.by_name = {}       # real _name -> node (to find the base of exact-named FromArray nodes)
        self.raw_of = {}        # id(RootAlias node) -> raw root expression
        self.keep = []          # keep reified nodes alive (ids are used as keys)

    # ---- atoms
    def atom(self, key):
        return self.atoms.setdefault(key, len(self.atoms))

    def lit(self, op):
        if has_expr(op):
            raise Unmodelled("expression inside a literal operand")
        try:
            return self.atom(("tok", _tokenize_deterministic(op)))
        except TokenizationError:
            raise Unmodelled("operand without a deterministic token")

    def name_id(self, node):
        return self.real_names.setdefault(node._name, len(self.real_names))

    def token_id(self, node):
        return self.real_tokens.setdefault(repr(node.deterministic_token), len(self.real_tokens))

    def register(self, node):
        self.by_name.setdefault(node._name, node)


class Case:
    """One Coq case: let-bound node terms + the list of (node, real name id, real token id)."""

    def __init__(self, R: Reifier):
        self.R = R
        self.vars = {}        # id(node) -> var
        self.lets = []
        self.rows = []
        self.classes = []

    def z(self, x):
        return f"({x})" if x < 0 else str(x)

    def args(self, items):
        out = "ANil"
        for kind, v in reversed(items):
            out = f"({kind} {v} {out})"
        return out

    def flat(self, op, items):
        R = self.R
        if isinstance(op, Expr):
            items.append(("AChild", self.node(op)))
        elif has_expr(op):
            if isinstance(op, dict):
                items.append(("ALit", R.atom(("seq", "dict", len(op)))))
                for k in sorted(op, key=str):
                    items.append(("ALit", R.lit(k)))
                    self.flat(op[k], items)
            else:
                items.append(("ALit", R.atom(("seq", type(op).__name__, len(op)))))
                for o in op:
                    self.flat(o, items)
        else:
            items.append(("ALit", R.lit(op)))

    def prefix_of(self, node):
        tok = node.deterministic_token
        if not isinstance(tok, str) or not node._name.endswith("-" + tok):
            raise Unmodelled("name is not prefix-token")
        return self.R.atom(("str", node._name[: -len(tok) - 1]))

    def node(self, n):
        if id(n) in self.vars:
            return self.vars[id(n)]
        term = self.term(n)
        v = f"n{len(self.lets)}"
        self.lets.append((v, term))
        self.vars[id(n)] = v
        self.R.keep.append(n)
        self.rows.append((v, self.R.name_id(n), self.R.token_id(n)))
        self.classes.append(type(n).__name__)
        return v

    def term(self, n):
        from dask_array._blockwise import Blockwise, Elemwise
        from dask_array._expr import RootAlias
        from dask_array._rechunk import Rechunk, TasksRechunk
        from dask_array.io._from_array import FromArray
        from dask_array.random._expr import Random
        from dask_array.reductions._reduction import PartialReduce, Reduction
        from dask_array.slicing import SliceSlicesIntegers

        R, z = self.R, self.z
        T = type(n)
        owner = tokenizer_owner(T)
        cls = R.atom(("cls", T.__module__, T.__qualname__))
        if T is RootAlias:
            raw = R.raw_of.get(id(n))
            if raw is None or raw._name != n._name:
                raise Unmodelled("RootAlias without its raw root")
            return f"RootAlias {self.node(n.array)} {self.node(raw)}"
        if isinstance(n, FromArray) and n.operand("_name_is_exact"):
            nm = n.operand("_name_override")
            for sep, ctor, k in (("-getitem-", "SrcRegion", 3), ("-rechunk-", "SrcRechunk", 2)):
                base_name, found, h = nm.rpartition(sep)
                if found and len(h) == 32 and "-" not in h:
                    base, rec = R.by_name.get(base_name) or BASES.get(base_name), RECORDED.get(h)
                    if base is None or rec is None or len(rec) != k:
                        raise Unmodelled("exact FromArray: base or recorded hash arguments not seen")
                    return f"{ctor} {self.node(base)} " + " ".join(z(R.lit(a)) for a in rec)
            raise Unmodelled("exact FromArray: unknown name construction")
        if T is SliceSlicesIntegers and isinstance(n._determ_token, str) and "-extract-" in n._determ_token:
            base_name, _, pat = n._determ_token.rpartition("-extract-")
            if base_name != n.array._name or n._name != "getitem-" + n._determ_token:
                raise Unmodelled("extract token not of the expected form")
            return f"SliceExtract {self.node(n.array)} {z(R.atom(('str', pat)))}"
        if T is Rechunk or T is TasksRechunk:
            if not n._name.startswith("rechunk-merge-rc1"):
                raise Unmodelled("rechunk name fell back to tokenize")
            # the real name hashes ONE pickle of (child name, operands...): pickle memoises shared sub-objects, so
            # the bytes depend on object sharing inside `_chunks` (finding C07-B); the atom is the operand's own pickle
            import pickle
            lits = [z(R.atom(("pickle", pickle.dumps(n.operand(p), protocol=5)))) for p in n._parameters if p != "array"]
            return f"{T.__name__} {self.node(n.array)} " + " ".join(lits)
        if isinstance(n, Random):
            h = n._name.rpartition("-")[2]
            rec = RECORDED.get(h)
            if rec is not None and (len(rec) != 5 or owner != "Random" or n._name != f"{n.distribution}-{h}"):
                raise StructureChanged(f"Random._info hashes {len(rec)} ingredients (model: bitgens, size, chunks, args, kwargs) / tokenizer owner {owner}")
            if rec is None:
                raise Unmodelled("random node built outside the recorder")
            bitgen_token, size, nchunks, args, kwargs = rec
            items = []
            self.flat(tuple(args), items)
            # rng_now (third field) is irrelevant to names and tokens: 0
            return ("Random " + " ".join(z(x) for x in (
                cls, R.atom(("bitgens", bitgen_token)), 0, R.atom(("str", n.distribution)), R.lit(size),
                R.lit(nchunks), R.lit(kwargs))) + " " + self.args(items))
        if owner == "Blockwise":
            items = []
            for arg, ind in toolz.partition(2, n.args):
                if ind is None:
                    items.append(("ALit", R.lit(arg)))
                elif isinstance(arg, Expr):
                    items.append(("AChild", self.node(arg)))
                    items.append(("ALit", R.lit(ind)))
                else:
                    items.append(("ALit", R.lit(arg)))
                    items.append(("ALit", R.lit(ind)))
            mp = getattr(n, "_meta_provided", None)
            meta = R.atom(("meta", type(mp).__name__, str(getattr(mp, "dtype", None))))
            fields = [self.prefix_of(n), R.lit(n.func), R.lit(n.out_ind), R.lit(n.dtype), R.lit(n.adjust_chunks),
                      R.lit(n.new_axes), R.lit(n.align_arrays), R.lit(n.concatenate), R.lit(n.kwargs), meta]
            return "Blockwise " + " ".join(z(x) for x in fields) + " " + self.args(items)
        if owner == "Reduction" and isinstance(n, Reduction):
            w = [("AChild", self.node(n.weights))] if n.weights is not None else [("ALit", R.lit(None))]
            meta = R.atom(("meta", type(n.meta).__name__, str(getattr(n.meta, "dtype", None))))
            f = [R.lit(x) for x in (n.chunk, n.aggregate, n.axis, n.keepdims, n.operand("dtype"), n.split_every,
                                     n.combine, n.concatenate, n.output_size)]
            return (f"Reduction {z(cls)} {z(self.prefix_of(n))} {self.node(n.array)} " + " ".join(z(x) for x in f)
                    + f" {self.args(w)} {z(meta)}")
        if owner == "PartialReduce" and isinstance(n, PartialReduce):
            rm = n.reduced_meta
            meta = R.atom(("meta", type(rm).__name__, str(getattr(rm, "dtype", None))))
            f = [R.lit(x) for x in (n.func, n.split_every, n.keepdims, n.dtype)]
            return (f"PartialReduce {z(self.prefix_of(n))} {self.node(n.array)} " + " ".join(z(x) for x in f)
                    + f" {z(meta)}")
        if owner in ("Expr", "Elemwise", "FromArray"):
            tok = n.deterministic_token
            if isinstance(tok, str) and n._name.endswith("-" + tok):
                items = []
                for op in n.operands:
                    self.flat(op, items)
                return f"Gen {z(cls)} {z(self.prefix_of(n))} {self.args(items)}"
            # f"{prefix}-{_tokenize_deterministic(*operands)}", array first (CumReduction, ArgChunk, P2PRechunk)
            if owner == "Expr" and n.operands and isinstance(n.operands[0], Expr) and T.__name__ in NOCLS:
                h = n._name.rpartition("-")[2]
                pre = R.atom(("str", n._name[: -len(h) - 1]))
                items = []
                for op in n.operands[1:]:
                    self.flat(op, items)
                return f"GenNC {z(cls)} {z(pre)} {self.node(n.operands[0])} {self.args(items)}"
        raise Unmodelled(f"class {T.__name__} (tokenizer of {owner})")

    def literal(self):
        lets = " ".join(f"let {v} := {t} in" for v, t in self.lets)
        rows = "; ".join(f"({v}, {self.z(a)}, {self.z(b)})" for v, a, b in self.rows)
        return f"({lets} [{rows}])"


# classes whose _name is f"{prefix}-{_tokenize_deterministic(*operands)}" (read off the source)
NOCLS = {"CumReduction", "CumReductionBlelloch", "ArgChunk", "P2PRechunk"}

HEADER = ("From Coq Require Import ZArith List Bool.\nFrom DA Require Import PyBase Names.\n"
          "Import ListNotations.\nOpen Scope Z_scope.\n")
CASE_TYPE = "list (expr * Z * Z)"
CHECK_DEF = "Definition chk (c : list (expr * Z * Z)) : bool := names_pattern_ok c."


# --------------------------------------------------------------------------
# Python-side fingerprints (independent of the Coq model)
OMITTED = {"Blockwise": {"name", "token", "_meta_provided"}, "Reduction": {"name", "meta"},
           "PartialReduce": {"name", "reduced_meta"}}


def _opfp(op):
    if isinstance(op, Expr):
        return ("E", op._name)
    if isinstance(op, (list, tuple)) and has_expr(op):
        return (type(op).__name__, tuple(_opfp(o) for o in op))
    if isinstance(op, dict) and has_expr(op):
        return ("dict", tuple((str(k), _opfp(v)) for k, v in sorted(op.items(), key=lambda kv: str(kv[0]))))
    try:
        return ("t", _tokenize_deterministic(op))
    except Exception:  # noqa: BLE001
        return ("id", id(op))


def fingerprints(n):
    """(full, content): `full` = class + every operand (children by NAME); `content` = the same without the
    operands the class' tokenizer omits, plus chunks and dtype.  Random: the drawn bit generators stand for
    the (mutable) rng operand."""
    T = type(n)
    owner = tokenizer_owner(T)
    omit = OMITTED.get(owner, set()) if owner != "Blockwise" or T.__name__ != "Elemwise" else set()
    params = list(T._parameters)
    ops = []
    for i, op in enumerate(n.operands):
        p = params[i] if i < len(params) else f"*{i}"
        if p == "rng" and hasattr(n, "bitgens"):
            op = ("bitgens", _tokenize_deterministic(n.bitgens))
        ops.append((p, _opfp(op)))
    try:
        layout = (repr(n.chunks), str(n.dtype))
    except Exception:  # noqa: BLE001
        layout = ("<raises>",)
    cname = f"{T.__module__}.{T.__qualname__}"
    full = (cname, tuple(ops))
    content = (cname, tuple((p, f) for p, f in ops if p not in omit), layout)
    return full, content
