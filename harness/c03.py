"""C03 — advertised shape, dtype and chunks are what the graph produces."""
from __future__ import annotations

import itertools
import math
import re
import warnings

import dask
import dask.local
import numpy as np

import progs
from common import Check


def flat_keys(keys):
    if isinstance(keys, list):
        for k in keys:
            yield from flat_keys(k)
    else:
        yield keys


def check_blocks(arr):
    """Execute every advertised key and compare each block with .chunks/.dtype.
    Returns (list of problems, number of blocks)."""
    problems = []
    chunks = arr.chunks
    name = arr.name
    dsk = arr.__dask_graph__()
    keys = list(flat_keys(arr.__dask_keys__()))
    grid = list(itertools.product(*[range(len(c)) for c in chunks]))
    want_keys = [(name, *idx) for idx in grid]
    if keys != want_keys:
        problems.append(f"keys are not the (name, *block index) grid over numblocks {tuple(len(c) for c in chunks)}")
        return problems, 0
    with warnings.catch_warnings():
        warnings.simplefilter("ignore")
        vals = dask.local.get_sync(dsk, keys)
    for idx, v in zip(grid, vals):
        v = np.asarray(v)
        want = tuple(chunks[ax][i] for ax, i in enumerate(idx))
        if len(v.shape) != len(want):
            problems.append(f"block {idx} has rank {v.ndim}, advertised {len(want)}")
            continue
        for ax, (got, w) in enumerate(zip(v.shape, want)):
            if not (isinstance(w, float) and math.isnan(w)) and got != w:
                problems.append(f"block {idx} has shape {v.shape}, advertised {want}")
                break
        if v.dtype != arr.dtype:
            problems.append(f"block {idx} has dtype {v.dtype}, advertised {arr.dtype}")
    return problems, len(grid)


def err_sig(e):
    return re.sub(r"[0-9(),\[\]'-]+", "#", f"{type(e).__name__}: {e}")[:36]


def run_program(chk, da, prog, sources, want, optimize):
    from dask_array import _materialize
    _materialize._LOWER_CACHE.clear()
    for o in progs.ops_in(prog):
        chk.count("op:" + o)
    desc = progs.describe(prog, sources)
    try:
        with dask.config.set({"array.optimize-graph": optimize}), warnings.catch_warnings():
            warnings.simplefilter("ignore")
            arr = progs.build(prog, da, sources, memo={})
            adv = (tuple(arr.shape), arr.dtype, arr.chunks)
            try:
                problems, nblocks = check_blocks(arr)
            except Exception as e:  # noqa: BLE001
                chk.count("skipped:graph-raises:" + err_sig(e)[:24])
                chk.case(("prog", progs.show(prog), optimize), nontrivial=False)
                return
            got = arr.compute(scheduler="sync")
    except Exception as e:  # noqa: BLE001
        chk.count("skipped:raises")
        chk.case(("prog", progs.show(prog), optimize), nontrivial=False)
        return
    chk.case(("prog", progs.show(prog), repr([(s[0].shape, s[1]) for s in sources]), optimize), nontrivial=nblocks > 1,
             sample={**desc, "advertised": {"shape": adv[0], "dtype": str(adv[1]), "chunks": adv[2]}} if nblocks <= 6 else None)
    known_shape = tuple(s for s in adv[0])
    if not any(isinstance(s, float) and math.isnan(s) for s in known_shape) and tuple(np.shape(got)) != known_shape:
        problems.append(f"computed shape {np.shape(got)} != advertised {known_shape}")
    if np.asarray(got).dtype != adv[1]:
        problems.append(f"computed dtype {np.asarray(got).dtype} != advertised {adv[1]}")
    if (tuple(arr.shape), arr.dtype, arr.chunks) != adv and not any(isinstance(s, float) and math.isnan(s) for s in known_shape):
        problems.append("advertised metadata changed by computing")
    if problems:
        nodes = progs.all_nodes(prog)
        chk.violation("; ".join(sorted(set(problems))[:3]), {**desc, "optimize_graph": optimize, "advertised_chunks": adv[2]},
                      signature={"class": "block-shape" if "block" in problems[0] else "metadata", "root_op": prog[0],
                                 "swv_reduction": any(q[0] == "swv" and q[4] is not None for q in nodes),
                                 "zero_length_axis": any(s == 0 for s in adv[0]),
                                 "unstable_chunks_below_root": _unstable(prog, sources),
                                 **({"call": progs.call_tag(prog, sources)} if prog[0] == "call" else {})})
    else:
        chk.traces_validated += nblocks


def _unstable(prog, sources):
    import c01
    import dask_array as da
    return c01.unstable_chunks_below(da, prog, sources)


def replay(path):
    print(open(path).read())


def run(chk: Check):
    import dask_array as da
    chk.rule = ("generated programs x {optimize-graph on, off}: every advertised key is executed and the block's shape and dtype are "
                "compared with .chunks / .dtype per block index (unknown sizes: block count only), the assembled result with "
                ".shape / .dtype; programs that raise are C01/C08's business and are skipped (counted); non-trivial = more than one block")
    chk.run_proofs()
    import c01
    for tag, prog, sources in c01.CORPUS:
        if tag in ("F17", "F20", "F25", "F33c"):
            run_program(chk, da, prog, sources, None, True)
    # F36: topk with |k| beyond the axis length
    run_program(chk, da, ("call", "topk", (2, 0), (("src", 0),)), [(np.ones((1, 1), dtype="int64"), ((1,), (1,)))], None, True)
    for _ in range(1500 if chk.tier == "thorough" else 200):
        prog, sources, want = progs.misaligned_take(chk.rng)
        run_program(chk, da, prog, sources, want, True)
    for _ in range(400 if chk.tier == "thorough" else 40):
        prog, sources, want = progs.diag_equal_counts(chk.rng)
        run_program(chk, da, prog, sources, want, True)
    n = 8000 if chk.tier == "thorough" else 800
    for i, (prog, sources, want) in enumerate(progs.gen_programs(chk.rng, n)):
        run_program(chk, da, prog, sources, want, optimize=(i % 3 != 0))
    import random as _random
    api_rng = _random.Random(f"{chk.pid}-api-family-{chk.seed}")      # own stream: the families above keep theirs
    for i, (prog, sources, want) in enumerate(progs.gen_api_programs(api_rng, 4000 if chk.tier == "thorough" else 450)):
        chk.count("api-call:" + next(q[1] for q in progs.all_nodes(prog) if q[0] == "call"))
        run_program(chk, da, prog, sources, want, optimize=(i % 3 != 0))
