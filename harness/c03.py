"""C03 — advertised shape, dtype and chunks are what the graph produces."""
from __future__ import annotations

import itertools
import math
import re
import warnings

import dask
import dask.local
import numpy as np

import progs
from common import Check


def flat_keys(keys):
    if isinstance(keys, list):
        for k in keys:
            yield from flat_keys(k)
    else:
        yield keys


def check_blocks(arr):
    """Execute every advertised key and compare each block with .chunks/.dtype.
    Returns (list of problems, number of blocks)."""
    problems = []
    chunks = arr.chunks
    name = arr.name
    dsk = arr.__dask_graph__()
    keys = list(flat_keys(arr.__dask_keys__()))
    grid = list(itertools.product(*[range(len(c)) for c in chunks]))
    want_keys = [(name, *idx) for idx in grid]
    if keys != want_keys:
        problems.append(f"keys are not the (name, *block index) grid over numblocks {tuple(len(c) for c in chunks)}")
        return problems, 0
    with warnings.catch_warnings():
        warnings.simplefilter("ignore")
        vals = dask.local.get_sync(dsk, keys)
    for idx, v in zip(grid, vals):
        v = np.asarray(v)
        want = tuple(chunks[ax][i] for ax, i in enumerate(idx))
        if len(v.shape) != len(want):
            problems.append(f"block {idx} has rank {v.ndim}, advertised {len(want)}")
            continue
        for ax, (got, w) in enumerate(zip(v.shape, want)):
            if not (isinstance(w, float) and math.isnan(w)) and got != w:
                problems.append(f"block {idx} has shape {v.shape}, advertised {want}")
                break
        if v.dtype != arr.dtype:
            problems.append(f"block {idx} has dtype {v.dtype}, advertised {arr.dtype}")
    return problems, len(grid)


def err_sig(e):
    return re.sub(r"[0-9(),\[\]'-]+", "#", f"{type(e).__name__}: {e}")[:36]


def run_program(chk, da, prog, sources, want, optimize):
    from dask_array import _materialize
    _materialize._LOWER_CACHE.clear()
    for o in progs.ops_in(prog):
        chk.count("op:" + o)
    desc = progs.describe(prog, sources)
    try:
        with dask.config.set({"array.optimize-graph": optimize}), warnings.catch_warnings():
            warnings.simplefilter("ignore")
            arr = progs.build(prog, da, sources, memo={})
            adv = (tuple(arr.shape), arr.dtype, arr.chunks)
            try:
                problems, nblocks = check_blocks(arr)
            except Exception as e:  # noqa: BLE001
                chk.count("skipped:graph-raises:" + err_sig(e)[:24])
                chk.case(("prog", progs.show(prog), optimize), nontrivial=False)
                return
            got = arr.compute(scheduler="sync")
    except Exception as e:  # noqa: BLE001
        chk.count("skipped:raises")
        chk.case(("prog", progs.show(prog), optimize), nontrivial=False)
        return
    chk.case(("prog", progs.show(prog), repr([(s[0].shape, s[1]) for s in sources]), optimize), nontrivial=nblocks > 1,
             sample={**desc, "advertised": {"shape": adv[0], "dtype": str(adv[1]), "chunks": adv[2]}} if nblocks <= 6 else None)
    known_shape = tuple(s for s in adv[0])
    if not any(isinstance(s, float) and math.isnan(s) for s in known_shape) and tuple(np.shape(got)) != known_shape:
        problems.append(f"computed shape {np.shape(got)} != advertised {known_shape}")
    if np.asarray(got).dtype != adv[1]:
        problems.append(f"computed dtype {np.asarray(got).dtype} != advertised {adv[1]}")
    if (tuple(arr.shape), arr.dtype, arr.chunks) != adv and not any(isinstance(s, float) and math.isnan(s) for s in known_shape):
        problems.append("advertised metadata changed by computing")
    if problems:
        nodes = progs.all_nodes(prog)
        chk.violation("; ".join(sorted(set(problems))[:3]), {**desc, "optimize_graph": optimize, "advertised_chunks": adv[2]},
                      signature={"class": "block-shape" if "block" in problems[0] else "metadata", "root_op": prog[0],
                                 "swv_reduction": any(q[0] == "swv" and q[4] is not None for q in nodes),
                                 "zero_length_axis": any(s == 0 for s in adv[0]),
                                 "reduce_below_root": any(q[0] == "reduce" for q in nodes[1:]),
                                 "take_over_broadcast_to": any(q[0] == "take" and q[1][0] == "broadcast_to" for q in nodes),
                                 "unstable_chunks_below_root": _unstable(prog, sources),
                                 **({"call": progs.call_tag(prog, sources)} if prog[0] == "call" else {})})
    else:
        chk.traces_validated += nblocks


def _unstable(prog, sources):
    import c01
    import dask_array as da
    return c01.unstable_chunks_below(da, prog, sources)



# --------------------------------------------------------------------------
# fam_chunk_rule: the Gallina advertised-chunks rule `pchunks` (coq/theories/ProgChunks.v) tied to dask_array
CHUNK_HEADER = "From DA Require Import ProgChunks.\nOpen Scope Z_scope.\n"
CHUNK_CASE_TYPE = "nat * list (list nat * list (list Z)) * prog * list (list nat * bool)"
# tbl = the chunks dask_array advertises for EVERY node (path -> chunks; it is the oracle of the rule: read at leaves and
# where operands disagree); every listed node: pchunks of the sub-program at that path = the node's advertised chunks
# (or None when the sub-program contains an operation the rule does not model)
# kind 0: the rule agrees at every listed node AND the advertised chunks satisfy the oracle hypothesis orc_wf of theorem
# C03_advertised_chunks_are_a_layout (at every node: a layout of the node's advertised shape pshape); kinds 1 / 2: the halves
CHUNK_CHECK = ("Definition chk (c : nat * list (list nat * list (list Z)) * prog * list (list nat * bool)) : bool :=\n"
               "  let '(k, tbl, p, es) := c in\n"
               "  match k with O => nodes_ok tbl p es && orc_wf_b (orc_of tbl) p | 1 => nodes_ok tbl p es\n"
               "             | _ => orc_wf_b (orc_of tbl) p end%nat.\n")


def _chunk_children(q):
    """children in the order c01.to_coq prints them"""
    t = q[0]
    if t == "elem":
        return list(q[2:])
    if t == "where":
        return list(q[1:])
    if t in ("concat", "stack"):
        return list(q[1])
    if t in ("reduce", "cum"):
        return [q[2]]
    if t in ("src", "nparray", "ones", "arange", "const"):
        return []
    return [q[1]]


def _chunk_unmodelled(q):
    """the operation of node q that ProgChunks.pchunks does not model (None when it does)"""
    t = q[0]
    if t in ("take", "reshape"):
        return t
    if t == "rechunk" and not (isinstance(q[2], tuple) and all(isinstance(c, tuple) for c in q[2])):
        return "rechunk-implicit"
    if t == "repeat" and q[2] > 3:
        return "repeat>3"
    return None



def _chunk_rule_zero_length():
    """programs over sources with an axis of LENGTH 0 (always run, never sampled)"""
    S = slice
    # zero-LENGTH axes (vp check #8, seed 1: roll with shift 0 along an axis of length 0)
    src0 = [(np.zeros((1, 0), dtype="int64"), ((1,), (0,))), (np.zeros((0, 2), dtype="int64"), ((0,), (1, 1))), (np.zeros((2, 0), dtype="int64"), ((1, 1), (0, 0)))]
    for k in range(len(src0)):
        x = ("src", k)
        for q in [("roll", x, 0, 1), ("roll", x, -3, 0), ("roll", ("roll", x, -3, 0), 0, 1), ("repeat", ("roll", ("roll", x, -3, 0), 0, 1), 2, 0),
                  ("roll", x, 1, 1), ("roll", x, 2, 0), ("flip", x, 1), ("flip", x, 0), ("diff", x, 0), ("diff", x, 1), ("repeat", x, 2, 1), ("repeat", x, 0, 0),
                  ("slice", x, (S(None), S(None, None, -1))), ("slice", x, (S(1, None),)), ("T", x, (1, 0)), ("expand", x, 1), ("cum", "cumsum", x, 1, "sequential"),
                  ("reduce", "sum", x, (1,), False, None), ("reduce", "sum", x, (0,), True, None), ("concat", (x, x), 1), ("concat", (x, x), 0), ("stack", (x, x), 0),
                  ("elem", "add", x, x), ("broadcast_to", x, (3,) + tuple(src0[k][0].shape))]:
            yield q, src0


def _chunk_rule_directed():
    """small-scope directed programs for the chunk rule: layouts WITH ZERO-SIZE CHUNKS (which the generator's leaves never
    have) under every modelled operation; yields (prog, sources)"""
    S = slice
    lay1 = [(5,), (2, 3), (0, 5), (3, 0, 2), (0, 3, 0, 2), (1, 1, 3), (5, 0), (4, 1)]
    src1 = [(np.arange(5, dtype="int64") * 3 % 7 - 2, (c,)) for c in lay1]
    for k in range(len(src1)):
        x = ("src", k)
        un = [("slice", x, (S(1, None),)), ("slice", x, (S(None, -1),)), ("slice", x, (S(None, None, 2),)), ("slice", x, (S(None, None, -1),)),
              ("slice", x, (S(4, 1, -2),)), ("slice", x, (S(2, 2),)), ("slice", x, (None, S(1, 4))), ("slice", x, (S(3, None), None)),
              ("slice", x, (S(None, None, -2),)), ("slice", x, (S(-2, None),)), ("slice", x, (S(0, 5),)), ("slice", x, (S(3, 0, -1),)),
              ("flip", x, 0), ("roll", x, 2, 0), ("roll", x, -2, 0), ("roll", x, 0, 0), ("roll", x, 7, 0), ("roll", x, 5, 0),
              ("repeat", x, 0, 0), ("repeat", x, 1, 0), ("repeat", x, 2, 0), ("repeat", x, 3, 0), ("diff", x, 0),
              ("cum", "cumsum", x, 0, "sequential"), ("reduce", "sum", x, (0,), True, None), ("reduce", "max", x, (0,), False, None),
              ("expand", x, 0), ("expand", x, 1), ("rechunk", x, ((2, 0, 3),)), ("broadcast_to", x, (2, 5)), ("broadcast_to", x, (5,)),
              ("elem", "negative", x), ("elem", "add", x, ("const", 2)), ("flip", ("flip", x, 0), 0),
              ("diff", ("slice", x, (S(None, None, -1),)), 0), ("repeat", ("roll", x, 1, 0), 3, 0)]
        for q in un:
            yield q, src1
        for j in range(len(src1)):
            y = ("src", j)
            yield ("elem", "add", x, y), src1
            yield ("concat", (x, y), 0), src1
            yield ("stack", (x, y), 0), src1
            yield ("stack", (x, y), 1), src1
            if j % 3 == 0:
                yield ("where", ("elem", "greater", x, ("const", 0)), x, y), src1
                yield ("concat", (x, ("slice", y, (S(2, 2),)), y), 0), src1
    lay2 = [((2,), (3,)), ((1, 1), (1, 2)), ((0, 2), (3, 0)), ((2, 0), (0, 1, 2)), ((1, 0, 1), (2, 1))]
    src2 = [(np.arange(6, dtype="int64").reshape(2, 3) * 5 % 7 - 3, c) for c in lay2]
    for k in range(len(src2)):
        x = ("src", k)
        un = [("T", x, (1, 0)), ("slice", x, (S(None), S(None, None, -1))), ("slice", x, (1, S(1, None))), ("slice", x, (S(0, 1), S(None))),
              ("squeeze", ("slice", x, (S(0, 1), S(None))), 0), ("flip", x, 1), ("flip", x, 0), ("roll", x, 1, 1), ("repeat", x, 2, 1),
              ("repeat", x, 3, 0), ("diff", x, 1), ("reduce", "sum", x, (1,), False, None), ("reduce", "sum", x, None, True, None),
              ("reduce", "min", x, (0,), True, None), ("cum", "cumsum", x, 1, "blelloch"), ("expand", x, 1), ("broadcast_to", x, (3, 2, 3)),
              ("slice", x, (None, S(None), 2)), ("slice", x, (S(None, None, -1), S(2, 0, -1)))]
        for q in un:
            yield q, src2
        for j in range(len(src2)):
            y = ("src", j)
            yield ("elem", "multiply", x, y), src2
            yield ("concat", (x, y), 0), src2
            yield ("concat", (x, y), 1), src2
            yield ("stack", (x, y), 1), src2
            yield ("elem", "add", ("T", x, (1, 0)), ("T", y, (1, 0))), src2


def fam_chunk_rule(chk, da):
    import random as _random
    import c01
    from common import coq_eval_cases, clist, cnat, cbool
    thorough = chk.tier == "thorough"
    rng = _random.Random(f"{chk.pid}-chunk-rule-{chk.seed}")          # own stream: the other families keep theirs
    modelled_ops = [o for o in c01.SEM_OPS if o not in ("take", "reshape")]
    cases, meta = [], []

    def literal_layout(cs):
        return clist(cs, clist)

    def one(prog, sources, want):
        if np.asarray(want).dtype.kind not in "iub":
            chk.count("chunk-rule:skipped:float")
            return
        try:
            lit = c01.to_coq(prog, sources, {})
        except c01.OutOfSubset as e:
            chk.count("chunk-rule:skipped:" + str(e).split(" ")[0])
            return
        if len(lit) > 40000:
            chk.count("chunk-rule:skipped:large")
            return
        # DOMAIN RESTRICTION of the tie (stated in DESIGN / MANIFEST): when EVERY part of a concatenation is empty the
        # implementation takes another path that also drops zero-size chunks on the OTHER axes (da.concatenate([y, y], axis=1)
        # with y chunked ((1, 0), (0,)) advertises ((1,), (0, 0))); ProgChunks' concatenate rule keeps them.  That needs a
        # zero-size chunk made by an inner concat-like node under an outer one on an array without elements.
        concat_like = [q for q in progs.all_nodes(prog) if q[0] in ("roll", "concat", "repeat")]
        if np.asarray(want).size == 0 and any(any(r is not q and r[0] in ("roll", "concat", "repeat") for r in progs.all_nodes(q)) for q in concat_like):
            chk.count("chunk-rule:skipped:nested-concat-of-empty-arrays")
            return
        got = {}

        def hook(q, out):
            got[id(q)] = tuple(tuple(int(v) for v in c) for c in out.chunks) if hasattr(out, "chunks") else ()
        try:
            with warnings.catch_warnings():
                warnings.simplefilter("ignore")
                progs.build(prog, da, sources, memo={}, hooks=hook)
        except Exception:  # noqa: BLE001
            chk.count("chunk-rule:skipped:raises")                  # C01/C08's business
            return
        tbl, checks = [], []

        def walk(q, path):
            un = _chunk_unmodelled(q)
            for i, k in enumerate(_chunk_children(q)):
                un = walk(k, path + [i]) or un
            name = q[0] if q[0] != "reduce" else "reduce:" + q[1]
            if q[0] in ("elem", "where", "stack"):
                # does the rule read the oracle here (operands disagree) or is it deterministic (array operands agree)?
                kc = [got[id(k)] for k in _chunk_children(q) if k[0] != "const" and got[id(k)] != ()]
                chk.count(f"chunk-rule:{q[0]}:" + ("deterministic" if all(c == kc[0] for c in kc) else "oracle"))
            if q[0] != "const":
                tbl.append(f"({clist(path, cnat)}, {literal_layout(got[id(q)])})")
                checks.append((path, un is None, name))
            return un
        walk(prog, [])
        for path, ok, name in checks:
            chk.count(("chunk-rule:node:" if ok else "chunk-rule:unmodelled-below:") + name)
        for q in progs.all_nodes(prog):
            un = _chunk_unmodelled(q)
            if un:
                chk.count("chunk-rule:unmodelled:" + un)
        es = clist([(p, ok) for p, ok, _ in checks], lambda e: f"({clist(e[0], cnat)}, {cbool(e[1])})")
        cases.append(f"(0%nat, {clist(tbl, str)}, {lit}, {es})")
        meta.append((prog, sources, lit, tbl, checks))
        chk.count("chunk-rule:programs")
        chk.case(("chunk-rule", progs.show(prog), repr([(s[0].shape, s[1]) for s in sources])), nontrivial=len(checks) > 1)

    directed = list(_chunk_rule_directed())
    if not thorough:
        directed = rng.sample(directed, 220)
    directed = list(_chunk_rule_zero_length()) + directed
    for prog, sources in directed:
        try:
            want = progs.eval_np(prog, sources)
        except Exception:  # noqa: BLE001
            chk.count("chunk-rule:directed:numpy-raises")
            continue
        chk.count("chunk-rule:directed")
        one(prog, sources, want)
    n = 3000 if thorough else 320
    for prog, sources, want in progs.gen_programs(rng, n, ops=modelled_ops):
        one(prog, sources, want)
    for prog, sources, want in progs.gen_programs(rng, n // 6, ops=c01.SEM_OPS):      # with take / reshape: the rule must be None
        one(prog, sources, want)
    mism, _log = coq_eval_cases(CHUNK_HEADER, CHUNK_CASE_TYPE, CHUNK_CHECK, cases, chunk=300 if thorough else 60)
    chk.count("chunk-rule:coq_cases", len(cases))
    # localise every mismatch to the lowest node whose rule disagrees
    again, again_meta = [], []
    for i in mism:
        prog, sources, lit, tbl, checks = meta[i]
        for path, ok, name in checks:
            again.append(f"(1%nat, {clist(tbl, str)}, {lit}, [({clist(path, cnat)}, {cbool(ok)})])")
            again_meta.append((i, path, ok, name))
        again.append(f"(2%nat, {clist(tbl, str)}, {lit}, [])")
        again_meta.append((i, None, True, "oracle-hypothesis"))
    bad, _log = coq_eval_cases(CHUNK_HEADER, CHUNK_CASE_TYPE, CHUNK_CHECK, again, chunk=60)
    reported = set()
    for j in bad:
        i, path, ok, name = again_meta[j]
        if path is None:
            # some node's advertised chunks are not a layout of the shape the reference semantics gives that node
            prog, sources, lit, tbl, checks = meta[i]
            reported.add(i)
            chk.tie_break("ProgChunks.advertised-chunks-not-a-layout-of-pshape",
                          {**progs.describe(prog, sources), "table": tbl[:40], "coq": lit[:3000]})
            continue
        # a node above a failing node fails for the same reason when its rule reads the child's result: report the deepest only
        if any(again_meta[k][0] == i and again_meta[k][1] is not None and len(again_meta[k][1]) > len(path)
               and again_meta[k][1][:len(path)] == path for k in bad):
            continue
        prog, sources, lit, tbl, checks = meta[i]
        reported.add(i)
        chk.tie_break("ProgChunks.pchunks-vs-advertised:" + name,
                      {**progs.describe(prog, sources), "path": path, "expected_modelled": ok, "table": tbl[:40], "coq": lit[:3000]})
    for i in mism:
        if i not in reported:
            prog, sources, lit, tbl, checks = meta[i]
            chk.tie_break("ProgChunks.pchunks-vs-advertised", {**progs.describe(prog, sources), "table": tbl[:40], "coq": lit[:3000]})
    chk.traces_validated += sum(len(m[4]) for k, m in enumerate(meta) if k not in set(mism))
    chk.extra["chunk_rule_family"] = {"programs": len(cases), "nodes_checked": sum(len(m[4]) for m in meta),
                                      "model_mismatches": len(mism)}


def fam_dtype_rules(chk, da):
    """Functions whose advertised dtype / shape is a RULE of (input dtype, method / option) rather than read off a block: every
    combination of a small dtype list with the options is built, every block is executed and compared with .chunks / .dtype, and the
    assembled result with .shape / .dtype.  Also `expand_dims` with axis tuples in every order (positions refer to the result)."""
    import itertools as _it
    dts = ["bool", "i1", "u1", "i4", "i8", "f2", "f4", "f8"]
    methods = ["linear", "lower", "higher", "midpoint", "nearest"]
    calls = []
    for m in methods:
        calls.append((f"percentile[{m}]", lambda x, m=m: da.percentile(x, [25, 50], method=m)))
        calls.append((f"percentile-scalar-q[{m}]", lambda x, m=m: da.percentile(x, 50, method=m)))
        calls.append((f"quantile[{m}]", lambda x, m=m: da.quantile(x.reshape(2, -1), 0.5, axis=1, method=m)))
        calls.append((f"quantile-list-q[{m}]", lambda x, m=m: da.quantile(x.reshape(2, -1), [0.25, 0.5], axis=1, method=m)))
        calls.append((f"nanquantile[{m}]", lambda x, m=m: da.nanquantile(x.reshape(2, -1), 0.5, axis=1, method=m)))
    for nm in ["mean", "var", "std", "sum", "prod", "cumsum", "cumprod", "median-all"]:
        calls.append((nm, (lambda x, nm=nm: getattr(da, nm)(x, axis=0)) if nm != "median-all" else (lambda x: da.median(x, axis=0))))
    calls += [("true_divide", lambda x: x / x), ("floor_divide", lambda x: x // (x + x.dtype.type(1))), ("sqrt", lambda x: da.sqrt(x)),
              ("arctan2", lambda x: da.arctan2(x, x)), ("round", lambda x: da.round(x)), ("clip", lambda x: da.clip(x, 1, 3)),
              ("where-scalar", lambda x: da.where(x > x.dtype.type(1), x, 0)), ("where-float", lambda x: da.where(x > x.dtype.type(1), x, 0.5)),
              ("diff", lambda x: da.diff(x)), ("dot", lambda x: da.dot(x, x)), ("mean-keepdims", lambda x: x.mean(keepdims=True)),
              ("average-weights", lambda x: da.average(x, weights=x)), ("astype-f4-sum", lambda x: x.astype("f4").sum()),
              ("power-2", lambda x: x ** 2), ("power-half", lambda x: x ** 0.5), ("abs", lambda x: abs(x)), ("negative-or-invert", lambda x: ~x if x.dtype.kind in "biu" else -x),
              ("argmax", lambda x: da.argmax(x, axis=0)), ("count_nonzero", lambda x: da.count_nonzero(x)), ("histogram", lambda x: da.histogram(x, bins=3, range=(0, 6))[0]),
              ("bincount", lambda x: da.bincount(x, minlength=4) if x.dtype.kind in "iu" else None), ("cov", lambda x: da.cov(x.reshape(2, -1))),
              ("linspace-like", lambda x: da.linspace(0, 1, 5, dtype=x.dtype, chunks=2)), ("full_like", lambda x: da.full_like(x, 3)),
              ("isin", lambda x: da.isin(x, [1, 2])), ("searchsorted", lambda x: da.searchsorted(da.sort(x) if hasattr(da, "sort") else x, x)),
              ("var-ddof", lambda x: da.var(x, ddof=1)), ("nanmean", lambda x: da.nanmean(x)), ("ptp", lambda x: da.ptp(x, axis=0))]
    for dt, (name, f) in _it.product(dts, calls):
        a = (np.arange(8) % 5).astype(dt)
        chk.count("dtype-rule:" + name.split("[")[0])
        chk.case(("dtype-rule", name, dt), nontrivial=True)
        try:
            with warnings.catch_warnings():
                warnings.simplefilter("ignore")
                y = f(da.from_array(a, chunks=(3, 3, 2)))
                if y is None:
                    continue
                problems, nb = check_blocks(y)
                got = np.asarray(y.compute(scheduler="sync"))
        except Exception as e:  # noqa: BLE001
            chk.count("dtype-rule:raises")      # construction / computation errors are C01's and C08's business
            continue
        if got.dtype != y.dtype or got.shape != tuple(y.shape):
            problems = problems + [f"computed result has dtype {got.dtype} shape {got.shape}, advertised {y.dtype} {tuple(y.shape)}"]
        if problems:
            chk.violation(f"{name} on {dt}: " + problems[0], {"call": name, "dtype": dt, "data": a.tolist(), "chunks": (3, 3, 2), "problems": problems[:4]},
                          signature={"class": "dtype-rule", "call": name.split("[")[0], "dtype_kind": np.dtype(dt).kind,
                                     "what": "dtype" if "dtype" in problems[0] else "shape"})
        else:
            chk.traces_validated += 1
    # expand_dims: all axis tuples (any order, negative positions) for 1-D and 2-D inputs with several blocks
    for shape, chunks in (((4,), ((1, 3),)), ((3, 4), ((2, 1), (1, 3)))):
        a = np.arange(int(np.prod(shape))).reshape(shape)
        nd = len(shape)
        for k in (1, 2, 3):
            for ax in _it.permutations(range(nd + k), k):
                for neg in (False, True):
                    axes = tuple(p - (nd + k) if neg and i % 2 == 0 else p for i, p in enumerate(ax))
                    chk.count("expand-dims-tuple")
                    chk.case(("expand-dims", shape, axes), nontrivial=True)
                    want = np.expand_dims(a, axes)
                    try:
                        with warnings.catch_warnings():
                            warnings.simplefilter("ignore")
                            y = da.expand_dims(da.from_array(a, chunks=chunks), axes)
                            problems, nb = check_blocks(y)
                            got = np.asarray(y.compute(scheduler="sync"))
                    except Exception as e:  # noqa: BLE001
                        chk.violation(f"expand_dims(axis={axes}) raises {type(e).__name__}: {str(e)[:80]}", {"shape": shape, "chunks": chunks, "axis": axes},
                                      signature={"class": "expand-dims-tuple", "what": "raises"})
                        continue
                    if tuple(y.shape) != want.shape or got.shape != want.shape or not np.array_equal(got, want):
                        problems = problems + [f"advertised shape {tuple(y.shape)}, computed {got.shape}, NumPy {want.shape}"]
                    if problems:
                        chk.violation(f"expand_dims(axis={axes}): " + problems[0], {"shape": shape, "chunks": chunks, "axis": axes, "problems": problems[:4]},
                                      signature={"class": "expand-dims-tuple", "what": "shape"})
                    else:
                        chk.traces_validated += 1


def replay(path):
    print(open(path).read())


def run(chk: Check):
    import dask_array as da
    chk.rule = ("generated programs x {optimize-graph on, off}: every advertised key is executed and the block's shape and dtype are "
                "compared with .chunks / .dtype per block index (unknown sizes: block count only), the assembled result with "
                ".shape / .dtype; programs that raise are C01/C08's business and are skipped (counted); non-trivial = more than one block.  "
                "fam_chunk_rule: programs of the integer subset are printed as ProgSem.prog literals together with the chunks dask_array "
                "advertises for every node; Coq checks by vm_compute that the advertised-chunks rule ProgChunks.pchunks (oracle = the "
                "advertised chunks, read at leaves and where operands disagree) gives exactly the advertised chunks at every node, and "
                "None exactly on the sub-programs containing an unmodelled operation (take, reshape, implicit rechunk)")
    chk.run_proofs()
    import c01
    fam_chunk_rule(chk, da)
    fam_dtype_rules(chk, da)
    for tag, prog, sources in c01.CORPUS:
        if tag in ("F17", "F20", "F25", "F33c"):
            run_program(chk, da, prog, sources, None, True)
    # F36: topk with |k| beyond the axis length
    run_program(chk, da, ("call", "topk", (2, 0), (("src", 0),)), [(np.ones((1, 1), dtype="int64"), ((1,), (1,)))], None, True)
    for _ in range(1500 if chk.tier == "thorough" else 200):
        prog, sources, want = progs.misaligned_take(chk.rng)
        run_program(chk, da, prog, sources, want, True)
    for _ in range(400 if chk.tier == "thorough" else 40):
        prog, sources, want = progs.diag_equal_counts(chk.rng)
        run_program(chk, da, prog, sources, want, True)
    n = 8000 if chk.tier == "thorough" else 800
    for i, (prog, sources, want) in enumerate(progs.gen_programs(chk.rng, n)):
        run_program(chk, da, prog, sources, want, optimize=(i % 3 != 0))
    import random as _random
    api_rng = _random.Random(f"{chk.pid}-api-family-{chk.seed}")      # own stream: the families above keep theirs
    for i, (prog, sources, want) in enumerate(progs.gen_api_programs(api_rng, 4000 if chk.tier == "thorough" else 450)):
        chk.count("api-call:" + next(q[1] for q in progs.all_nodes(prog) if q[0] == "call"))
        run_program(chk, da, prog, sources, want, optimize=(i % 3 != 0))
