"""A table of public API functions beyond the core operations of progs.py, usable as program nodes

    ("call", name, params, (child programs ...))

Each entry knows how to draw parameters for given NumPy operand values (or to decline), how to evaluate with NumPy
and how to build the dask_array expression.  Second operands are fresh sources made by `second`.
The table is deliberately broad rather than deep: it is what lets every program-based check reach code paths
(reshape_blockwise, outer/tensordot/einsum, TSQR, quantiles, pad, topk, bincount, histogram, insert/delete, block,
coarsen, apply_along_axis, ...) that the core generator never builds."""
from __future__ import annotations

import numpy as np


class Call:
    def __init__(self, arity, params, npf, daf, second=None, needs=None):
        self.arity, self.params, self.npf, self.daf, self.second, self.needs = arity, params, npf, daf, second, needs


def _ax(rng, v):
    return rng.randrange(v.ndim)


def _f(v):
    return np.asarray(v, dtype="float64")


CALLS = {}


def reg(name, arity, params, npf, daf, second=None, needs=None):
    CALLS[name] = Call(arity, params, npf, daf, second, needs)


def nd(lo, hi=9):
    return lambda vs: lo <= vs[0].ndim <= hi and vs[0].dtype.kind in "iu"


def nonempty(vs):
    return all(s > 0 for s in vs[0].shape)


# ---------------------------------------------------------------- products
reg("outer", 2, lambda rng, vs: (), lambda vs, p: np.outer(vs[0], vs[1]), lambda da, xs, p: da.outer(xs[0], xs[1]),
    second=lambda rng, v: (np.arange(rng.choice([1, 2, 3, 5]), dtype="int64") * 2 - 3), needs=lambda vs: vs[0].ndim == 1 and vs[0].dtype.kind in "iu")
reg("outer_self", 1, lambda rng, vs: (), lambda vs, p: np.outer(vs[0] + 1, vs[0] + 1), lambda da, xs, p: da.outer(xs[0] + 1, xs[0] + 1),
    needs=lambda vs: vs[0].ndim == 1 and vs[0].dtype.kind in "iu")
reg("matmul", 2, lambda rng, vs: (), lambda vs, p: vs[0] @ vs[1], lambda da, xs, p: xs[0] @ xs[1],
    second=lambda rng, v: (np.arange(v.shape[-1] * 3, dtype="int64").reshape(v.shape[-1], 3) % 5 - 2), needs=lambda vs: vs[0].ndim == 2 and vs[0].dtype.kind in "iu")
reg("gram", 1, lambda rng, vs: (), lambda vs, p: vs[0] @ vs[0].T, lambda da, xs, p: xs[0] @ xs[0].T, needs=lambda vs: vs[0].ndim == 2 and vs[0].dtype.kind in "iu")
reg("tensordot", 2, lambda rng, vs: (rng.choice([1, 1, 2]),), lambda vs, p: np.tensordot(vs[0], vs[1], axes=min(p[0], vs[0].ndim)),
    lambda da, xs, p: da.tensordot(xs[0], xs[1], axes=min(p[0], xs[0].ndim)),
    second=lambda rng, v: (np.arange(int(np.prod(v.shape[-2:])) * 2, dtype="int64").reshape(v.shape[-2:] + (2,)) % 7 - 3) if v.ndim >= 2 else None,
    needs=lambda vs: 2 <= vs[0].ndim <= 3 and vs[0].dtype.kind in "iu")
reg("einsum_ij_j", 2, lambda rng, vs: (), lambda vs, p: np.einsum("ij,j->i", vs[0], vs[1]), lambda da, xs, p: da.einsum("ij,j->i", xs[0], xs[1]),
    second=lambda rng, v: np.arange(v.shape[1], dtype="int64") - 1, needs=lambda vs: vs[0].ndim == 2 and vs[0].dtype.kind in "iu")
reg("einsum_trace", 1, lambda rng, vs: (), lambda vs, p: np.einsum("ij->j", vs[0]), lambda da, xs, p: da.einsum("ij->j", xs[0]), needs=lambda vs: vs[0].ndim == 2 and vs[0].dtype.kind in "iu")
reg("vdot", 1, lambda rng, vs: (), lambda vs, p: np.vdot(vs[0], vs[0] + 2), lambda da, xs, p: da.vdot(xs[0], xs[0] + 2), needs=lambda vs: vs[0].ndim == 1 and vs[0].dtype.kind in "iu")

# ---------------------------------------------------------------- shape manipulation
reg("moveaxis", 1, lambda rng, vs: (_ax(rng, vs[0]), _ax(rng, vs[0])), lambda vs, p: np.moveaxis(vs[0], p[0], p[1]), lambda da, xs, p: da.moveaxis(xs[0], p[0], p[1]), needs=nd(2))
reg("swapaxes", 1, lambda rng, vs: (_ax(rng, vs[0]), _ax(rng, vs[0])), lambda vs, p: np.swapaxes(vs[0], p[0], p[1]), lambda da, xs, p: da.swapaxes(xs[0], p[0], p[1]), needs=nd(2))
reg("rollaxis", 1, lambda rng, vs: (_ax(rng, vs[0]),), lambda vs, p: np.rollaxis(vs[0], p[0]), lambda da, xs, p: da.rollaxis(xs[0], p[0]), needs=nd(2))
reg("ravel", 1, lambda rng, vs: (), lambda vs, p: np.ravel(vs[0]), lambda da, xs, p: xs[0].ravel(), needs=lambda vs: vs[0].ndim >= 1 and nonempty(vs) and vs[0].dtype.kind in "iu")
reg("flatten_after_T", 1, lambda rng, vs: (), lambda vs, p: vs[0].T.flatten(), lambda da, xs, p: xs[0].T.flatten(), needs=lambda vs: vs[0].ndim >= 2 and nonempty(vs) and vs[0].dtype.kind in "iu")
reg("atleast_3d", 1, lambda rng, vs: (), lambda vs, p: np.atleast_3d(vs[0]), lambda da, xs, p: da.atleast_3d(xs[0]), needs=nd(0))
reg("rot90", 1, lambda rng, vs: (rng.choice([1, 2, 3]),), lambda vs, p: np.rot90(vs[0], p[0]), lambda da, xs, p: da.rot90(xs[0], p[0]), needs=nd(2))
reg("fliplr", 1, lambda rng, vs: (), lambda vs, p: np.fliplr(vs[0]), lambda da, xs, p: da.fliplr(xs[0]), needs=nd(2))
reg("tile", 1, lambda rng, vs: (rng.choice([1, 2, 3]),), lambda vs, p: np.tile(vs[0], p[0]), lambda da, xs, p: da.tile(xs[0], p[0]), needs=nd(1))
reg("tril", 1, lambda rng, vs: (rng.choice([-1, 0, 1]),), lambda vs, p: np.tril(vs[0], p[0]), lambda da, xs, p: da.tril(xs[0], p[0]), needs=nd(2))
reg("triu", 1, lambda rng, vs: (rng.choice([-1, 0, 1]),), lambda vs, p: np.triu(vs[0], p[0]), lambda da, xs, p: da.triu(xs[0], p[0]), needs=nd(2))


def _merge_last_two_ok(vs):
    # (an all-ones shape keeps its rank: known finding F37)
    return vs[0].ndim >= 3 and nonempty(vs) and vs[0].size > 1 and vs[0].dtype.kind in "iu"


# reshape_blockwise equals NumPy's reshape when the trailing one of the merged axes is a single chunk: the da side makes it so
reg("reshape_blockwise_merge", 1, lambda rng, vs: (), lambda vs, p: vs[0].reshape(vs[0].shape[:-2] + (-1,)),
    lambda da, xs, p: da.reshape_blockwise(xs[0].rechunk({xs[0].ndim - 1: -1}), xs[0].shape[:-2] + (int(np.prod(xs[0].shape[-2:])),)), needs=_merge_last_two_ok)
reg("reshape_blockwise_merge4", 1, lambda rng, vs: (), lambda vs, p: vs[0][..., None].repeat(2, -1).reshape(vs[0].shape[:-1] + (-1,)),
    lambda da, xs, p: da.reshape_blockwise(da.repeat(xs[0][..., None], 2, axis=-1).rechunk({xs[0].ndim: -1}),
                                           xs[0].shape[:-1] + (xs[0].shape[-1] * 2,)), needs=lambda vs: vs[0].ndim >= 2 and nonempty(vs) and vs[0].dtype.kind in "iu")

def _take_T_params(rng, vs):
    v = vs[0]
    perm = list(range(v.ndim))
    rng.shuffle(perm)
    ax = rng.randrange(v.ndim)
    n = v.shape[perm[ax]]
    idx = tuple(rng.randrange(n) for _ in range(rng.randint(1, n + 1)))
    return (tuple(perm), ax, idx)


# a list index directly above a transpose (the shuffle is pushed onto the INPUT axis axes[ax]); cyclic permutations included
reg("take_over_transpose", 1, _take_T_params, lambda vs, p: np.take(vs[0].transpose(p[0]), list(p[2]), axis=p[1]),
    lambda da, xs, p: xs[0].transpose(p[0])[(slice(None),) * p[1] + (list(p[2]),)],
    needs=lambda vs: vs[0].ndim >= 2 and nonempty(vs) and vs[0].dtype.kind in "iu")
reg("transpose_twice", 1, lambda rng, vs: (tuple(rng.sample(range(vs[0].ndim), vs[0].ndim)), tuple(rng.sample(range(vs[0].ndim), vs[0].ndim))),
    lambda vs, p: vs[0].transpose(p[0]).transpose(p[1]), lambda da, xs, p: xs[0].transpose(p[0]).transpose(p[1]),
    needs=lambda vs: vs[0].ndim >= 3 and vs[0].dtype.kind in "iu")

# three output axes, uneven leading chunks, BOTH trailing output axes with several blocks
reg("reshape_blockwise_uneven", 1, lambda rng, vs: (rng.randint(1, vs[0].shape[0] - 1), rng.randint(1, vs[0].shape[2] - 1)),
    lambda vs, p: vs[0][..., None].repeat(2, -1).reshape(vs[0].shape[:-1] + (-1,)),
    lambda da, xs, p: da.reshape_blockwise(
        da.repeat(xs[0][..., None], 2, axis=-1).rechunk(((p[0], xs[0].shape[0] - p[0]), (1,) * xs[0].shape[1], (p[1], xs[0].shape[2] - p[1]), (2,))),
        xs[0].shape[:-1] + (xs[0].shape[-1] * 2,)),
    needs=lambda vs: vs[0].ndim == 3 and all(s >= 2 for s in vs[0].shape) and vs[0].dtype.kind in "iu")

# ---------------------------------------------------------------- joining / editing
reg("hstack_self", 1, lambda rng, vs: (), lambda vs, p: np.hstack([vs[0], vs[0] + 1]), lambda da, xs, p: da.hstack([xs[0], xs[0] + 1]), needs=nd(1))
reg("vstack_self", 1, lambda rng, vs: (), lambda vs, p: np.vstack([vs[0], vs[0] * 2]), lambda da, xs, p: da.vstack([xs[0], xs[0] * 2]), needs=nd(1))
reg("dstack_self", 1, lambda rng, vs: (), lambda vs, p: np.dstack([vs[0], -vs[0]]), lambda da, xs, p: da.dstack([xs[0], -xs[0]]), needs=nd(1, 3))
reg("block22", 1, lambda rng, vs: (), lambda vs, p: np.block([[vs[0], vs[0] + 1], [vs[0] * 2, -vs[0]]]),
    lambda da, xs, p: da.block([[xs[0], xs[0] + 1], [xs[0] * 2, -xs[0]]]), needs=lambda vs: vs[0].ndim == 2 and vs[0].dtype.kind in "iu")
reg("append", 1, lambda rng, vs: (_ax(rng, vs[0]),), lambda vs, p: np.append(vs[0], vs[0] + 5, axis=p[0]), lambda da, xs, p: da.append(xs[0], xs[0] + 5, axis=p[0]), needs=nd(1))
reg("insert", 1, lambda rng, vs: (rng.randrange(vs[0].shape[0] + 1), 0), lambda vs, p: np.insert(vs[0], p[0], -9, axis=0), lambda da, xs, p: da.insert(xs[0], p[0], -9, axis=0),
    needs=lambda vs: vs[0].ndim >= 1 and nonempty(vs) and vs[0].dtype.kind in "iu")
reg("delete", 1, lambda rng, vs: (rng.randrange(vs[0].shape[0]),), lambda vs, p: np.delete(vs[0], p[0], axis=0), lambda da, xs, p: da.delete(xs[0], p[0], axis=0),
    needs=lambda vs: vs[0].ndim >= 1 and vs[0].shape[0] > 0 and vs[0].dtype.kind in "iu")
reg("delete_slice", 1, lambda rng, vs: (), lambda vs, p: np.delete(vs[0], slice(0, None, 2), axis=-1), lambda da, xs, p: da.delete(xs[0], slice(0, None, 2), axis=-1),
    needs=lambda vs: vs[0].ndim >= 1 and vs[0].shape[-1] > 0 and vs[0].dtype.kind in "iu")

PAD_MODES = ["constant", "edge", "reflect", "symmetric", "wrap", "linear_ramp", "maximum", "minimum"]


def _pad_params(rng, vs):
    v = vs[0]
    mode = rng.choice(PAD_MODES)
    w = rng.choice([1, 2, (1, 2), 3])
    big = max(w) if isinstance(w, tuple) else w
    if mode in ("reflect",) and any(s <= big for s in v.shape):
        return None
    if mode in ("wrap", "symmetric") and any(s < big for s in v.shape):
        return None          # known finding F35: a pad wider than the axis is cut short (NumPy wraps / mirrors repeatedly)
    if any(s == 0 for s in v.shape):
        return None
    return (w, mode)


reg("pad", 1, _pad_params, lambda vs, p: np.pad(vs[0], p[0], mode=p[1]), lambda da, xs, p: da.pad(xs[0], p[0], mode=p[1]), needs=nd(1, 3))

# ---------------------------------------------------------------- order statistics / counting
reg("quantile", 1, lambda rng, vs: (rng.choice([0.0, 0.25, 0.5, 1.0]), _ax(rng, vs[0]), rng.random() < 0.5, rng.random() < 0.5),
    lambda vs, p: np.quantile(_f(vs[0]), p[0], axis=p[1], keepdims=p[2]),
    lambda da, xs, p: da.quantile(xs[0].astype("float64"), p[0], axis=p[1], keepdims=p[2], overwrite_input=p[3]),
    needs=lambda vs: vs[0].ndim >= 1 and nonempty(vs) and vs[0].dtype.kind in "iu")
# options that invite in-place work on the input block (a task must never write into the blocks it depends on: C10)
reg("quantile_overwrite", 1, lambda rng, vs: (rng.choice([0.25, 0.5]), _ax(rng, vs[0])),
    lambda vs, p: np.quantile(_f(vs[0]), p[0], axis=p[1], keepdims=True),
    lambda da, xs, p: da.quantile(xs[0].astype("float64").rechunk({p[1]: -1}), p[0], axis=p[1], keepdims=True, overwrite_input=True),
    needs=lambda vs: vs[0].ndim >= 1 and nonempty(vs) and vs[0].dtype.kind in "iu")
reg("median", 1, lambda rng, vs: (_ax(rng, vs[0]), rng.random() < 0.5), lambda vs, p: np.median(vs[0], axis=p[0], keepdims=p[1]),
    lambda da, xs, p: da.median(xs[0], axis=p[0], keepdims=p[1]), needs=lambda vs: vs[0].ndim >= 1 and nonempty(vs) and vs[0].dtype.kind in "iu")
reg("percentile_1d", 1, lambda rng, vs: (rng.choice([0, 50, 100]), rng.choice(["nearest", "lower", "higher", "midpoint", "linear"])),
    lambda vs, p: np.percentile(vs[0], [p[0]], method=p[1]),
    lambda da, xs, p: da.percentile(xs[0].rechunk(-1), [p[0]], method=p[1]), needs=lambda vs: vs[0].ndim == 1 and vs[0].size > 0 and vs[0].dtype.kind in "iu")
reg("percentile_1d_f4", 1, lambda rng, vs: (rng.choice([0, 50, 100]), rng.choice(["nearest", "lower", "higher", "midpoint", "linear"])),
    lambda vs, p: np.percentile(vs[0].astype("float32"), [p[0]], method=p[1]),
    lambda da, xs, p: da.percentile(xs[0].astype("float32").rechunk(-1), [p[0]], method=p[1]),
    needs=lambda vs: vs[0].ndim == 1 and vs[0].size > 0 and vs[0].dtype.kind in "iu")
def _topk_params(rng, vs):
    k, ax = rng.choice([1, 2, -1, -2]), _ax(rng, vs[0])
    return (k, ax) if abs(k) <= vs[0].shape[ax] else None      # known finding F36: k beyond the axis length advertises k rows


reg("topk", 1, _topk_params,
    lambda vs, p: (np.sort(vs[0], axis=p[1]).take(range(-1, -min(abs(p[0]), vs[0].shape[p[1]]) - 1, -1), axis=p[1]) if p[0] > 0 else
                   np.sort(vs[0], axis=p[1]).take(range(0, min(abs(p[0]), vs[0].shape[p[1]])), axis=p[1])),
    lambda da, xs, p: da.topk(xs[0], p[0], axis=p[1]), needs=lambda vs: vs[0].ndim >= 1 and nonempty(vs) and vs[0].dtype.kind in "iu")
reg("ptp", 1, lambda rng, vs: (_ax(rng, vs[0]),), lambda vs, p: np.ptp(vs[0], axis=p[0]), lambda da, xs, p: da.ptp(xs[0], axis=p[0]),
    needs=lambda vs: vs[0].ndim >= 1 and nonempty(vs) and vs[0].dtype.kind in "iu")
reg("bincount", 1, lambda rng, vs: (rng.choice([0, 3, 12]),), lambda vs, p: np.bincount(np.abs(vs[0]), minlength=p[0]),
    lambda da, xs, p: da.bincount(abs(xs[0]), minlength=max(p[0], 1)) if False else da.bincount(abs(xs[0]), minlength=max(p[0], int(np.abs(0)) + 30)),
    needs=lambda vs: False)          # output length is data dependent without minlength >= max+1: see bincount30
reg("bincount30", 1, lambda rng, vs: (), lambda vs, p: np.bincount(np.abs(vs[0]) % 30, minlength=30), lambda da, xs, p: da.bincount(abs(xs[0]) % 30, minlength=30),
    needs=lambda vs: vs[0].ndim == 1 and vs[0].dtype.kind in "iu")
reg("histogram", 1, lambda rng, vs: (rng.choice([3, 5]),), lambda vs, p: np.histogram(vs[0], bins=p[0], range=(-10, 30))[0],
    lambda da, xs, p: da.histogram(xs[0], bins=p[0], range=(-10, 30))[0], needs=nd(1))
reg("count_nonzero", 1, lambda rng, vs: (_ax(rng, vs[0]),), lambda vs, p: np.count_nonzero(vs[0], axis=p[0]), lambda da, xs, p: da.count_nonzero(xs[0], axis=p[0]), needs=nd(1))
reg("isin", 1, lambda rng, vs: (), lambda vs, p: np.isin(vs[0], [0, 1, 4, -3]), lambda da, xs, p: da.isin(xs[0], [0, 1, 4, -3]), needs=nd(1))
reg("digitize", 1, lambda rng, vs: (rng.random() < 0.5,), lambda vs, p: np.digitize(vs[0], np.array([-2, 0, 3, 7]), right=p[0]),
    lambda da, xs, p: da.digitize(xs[0], np.array([-2, 0, 3, 7]), right=p[0]), needs=nd(1))
reg("searchsorted", 1, lambda rng, vs: (rng.choice(["left", "right"]),), lambda vs, p: np.searchsorted(np.arange(0, 20, 2), vs[0], side=p[0]),
    lambda da, xs, p: da.searchsorted(da.arange(0, 20, 2, chunks=3), xs[0], side=p[0]), needs=lambda vs: vs[0].ndim >= 1 and nonempty(vs) and vs[0].dtype.kind in "iu")
reg("clip", 1, lambda rng, vs: (rng.randint(-3, 0), rng.randint(1, 6)), lambda vs, p: np.clip(vs[0], p[0], p[1]), lambda da, xs, p: da.clip(xs[0], p[0], p[1]), needs=nd(0))
reg("average_w", 1, lambda rng, vs: (_ax(rng, vs[0]),), lambda vs, p: np.average(_f(vs[0]), axis=p[0], weights=np.arange(1, vs[0].shape[p[0]] + 1)),
    lambda da, xs, p: da.average(xs[0].astype("float64"), axis=p[0], weights=da.arange(1, xs[0].shape[p[0]] + 1, chunks=2)),
    needs=lambda vs: vs[0].ndim >= 1 and nonempty(vs) and vs[0].dtype.kind in "iu")
reg("cov", 1, lambda rng, vs: (), lambda vs, p: np.cov(_f(vs[0])), lambda da, xs, p: da.cov(xs[0].astype("float64")),
    needs=lambda vs: vs[0].ndim == 2 and vs[0].shape[1] > 1 and vs[0].shape[0] > 0 and vs[0].dtype.kind in "iu")
reg("gradient", 1, lambda rng, vs: (_ax(rng, vs[0]),), lambda vs, p: np.gradient(_f(vs[0]), axis=p[0]), lambda da, xs, p: da.gradient(xs[0].astype("float64").rechunk({p[0]: -1}), axis=p[0]),
    needs=lambda vs: vs[0].ndim >= 1 and all(s >= 2 for s in vs[0].shape) and vs[0].dtype.kind in "iu")
reg("nancumsum", 1, lambda rng, vs: (_ax(rng, vs[0]),), lambda vs, p: np.nancumsum(np.where(vs[0] % 3 == 0, np.nan, _f(vs[0])), axis=p[0]),
    lambda da, xs, p: da.nancumsum(da.where(xs[0] % 3 == 0, np.nan, xs[0].astype("float64")), axis=p[0]), needs=nd(1))

# ---------------------------------------------------------------- user functions / blocks
reg("apply_along_axis", 1, lambda rng, vs: (_ax(rng, vs[0]),), lambda vs, p: np.apply_along_axis(lambda a: a[::-1].cumsum(), p[0], vs[0]),
    lambda da, xs, p: da.apply_along_axis(lambda a: a[::-1].cumsum(), p[0], xs[0], dtype=xs[0].dtype, shape=(xs[0].shape[p[0]],)),
    needs=lambda vs: vs[0].ndim >= 1 and nonempty(vs) and vs[0].dtype.kind in "iu")
reg("apply_along_axis_scalar", 1, lambda rng, vs: (_ax(rng, vs[0]),), lambda vs, p: np.apply_along_axis(lambda a: a.max() - a.min(), p[0], vs[0]),
    lambda da, xs, p: da.apply_along_axis(lambda a: a.max() - a.min(), p[0], xs[0], dtype=xs[0].dtype, shape=()),
    needs=lambda vs: vs[0].ndim >= 1 and nonempty(vs) and vs[0].dtype.kind in "iu")
reg("coarsen_sum", 1, lambda rng, vs: (rng.choice([2, 3]),),
    lambda vs, p: np.add.reduceat(vs[0][: vs[0].shape[0] // p[0] * p[0]], np.arange(0, vs[0].shape[0] // p[0] * p[0], p[0]), axis=0) if vs[0].shape[0] // p[0] else vs[0][:0],
    lambda da, xs, p: da.coarsen(np.sum, xs[0], {0: p[0]}, trim_excess=True),
    needs=lambda vs: vs[0].ndim >= 1 and vs[0].shape[0] >= 3 and all(s > 0 for s in vs[0].shape) and vs[0].dtype.kind in "iu")
reg("select", 1, lambda rng, vs: (), lambda vs, p: np.select([vs[0] < 0, vs[0] > 3], [vs[0] * 2, -vs[0]], default=7),
    lambda da, xs, p: da.select([xs[0] < 0, xs[0] > 3], [xs[0] * 2, -xs[0]], default=7), needs=nd(1))
reg("choose", 1, lambda rng, vs: (), lambda vs, p: np.choose(np.abs(vs[0]) % 2, [vs[0], vs[0] + 100]), lambda da, xs, p: da.choose(abs(xs[0]) % 2, [xs[0], xs[0] + 100]), needs=nd(1))
reg("piecewise", 1, lambda rng, vs: (), lambda vs, p: np.piecewise(vs[0], [vs[0] < 0, vs[0] >= 0], [lambda a: -a, lambda a: a * 3]),
    lambda da, xs, p: da.piecewise(xs[0], [xs[0] < 0, xs[0] >= 0], [lambda a: -a, lambda a: a * 3]), needs=nd(1))
def _shift_sum(d):
    def f(b):
        """x[i-d] + x[i+d] on a block that carries d halo rows on both sides (the halo rows of the result are trimmed)"""
        out = np.zeros_like(b)
        out[d:b.shape[0] - d] = b[2 * d:] + b[: b.shape[0] - 2 * d]
        return out
    return f


reg("map_overlap_periodic_slice", 1,
    lambda rng, vs: (lambda d: (d, rng.choice([0, 1, d - 1, d, d + 1]), rng.choice([0, 1, d - 1, d, d + 1])))(rng.choice([1, 2, 2, 3, 3])),
    lambda vs, p: (np.roll(vs[0], p[0], 0) + np.roll(vs[0], -p[0], 0))[p[1]: vs[0].shape[0] - p[2]],
    lambda da, xs, p: da.map_overlap(_shift_sum(p[0]), xs[0], depth={0: p[0]}, boundary={0: "periodic"}, dtype=xs[0].dtype)[p[1]: xs[0].shape[0] - p[2]],
    needs=lambda vs: vs[0].ndim >= 1 and vs[0].shape[0] >= 7 and all(s > 0 for s in vs[0].shape) and vs[0].dtype.kind in "iu")


# ---------------------------------------------------------------- linear algebra (tall-and-skinny path needs ONE column block)
def _svals(v):
    return np.linalg.svd(_f(v), compute_uv=False)


reg("svd_s", 1, lambda rng, vs: (), lambda vs, p: _svals(vs[0]), lambda da, xs, p: da.linalg.svd(xs[0].astype("float64").rechunk({1: -1}))[1],
    needs=lambda vs: vs[0].ndim == 2 and all(s > 0 for s in vs[0].shape) and vs[0].dtype.kind in "iu")
reg("qr_absr", 1, lambda rng, vs: (), lambda vs, p: np.abs(np.linalg.qr(_f(vs[0]))[1]), lambda da, xs, p: abs(da.linalg.qr(xs[0].astype("float64").rechunk({1: -1}))[1]),
    needs=lambda vs: vs[0].ndim == 2 and all(s > 0 for s in vs[0].shape) and vs[0].dtype.kind in "iu" and
    np.linalg.matrix_rank(_f(vs[0])) == min(vs[0].shape))
reg("qr_product", 1, lambda rng, vs: (), lambda vs, p: _f(vs[0]),
    lambda da, xs, p: (lambda qr: qr[0] @ qr[1])(da.linalg.qr(xs[0].astype("float64").rechunk({1: -1}))),
    needs=lambda vs: vs[0].ndim == 2 and all(s > 0 for s in vs[0].shape) and vs[0].dtype.kind in "iu")
reg("norm", 1, lambda rng, vs: (_ax(rng, vs[0]),), lambda vs, p: np.linalg.norm(_f(vs[0]), axis=p[0]), lambda da, xs, p: da.linalg.norm(xs[0].astype("float64"), axis=p[0]),
    needs=lambda vs: vs[0].ndim >= 1 and vs[0].dtype.kind in "iu")
del CALLS["bincount"]


def applicable(name, vs):
    c = CALLS[name]
    try:
        return c.needs is None or bool(c.needs(vs))
    except Exception:  # noqa: BLE001
        return False


# calls that get several slots per round of gen_api_programs (many parameter regimes / directed edge cases)
WEIGHTS = {"take_over_transpose": 3, "transpose_twice": 2, "quantile_overwrite": 2, "reshape_blockwise_uneven": 3, "map_overlap_periodic_slice": 4, "reshape_blockwise_merge": 3, "reshape_blockwise_merge4": 2, "quantile": 3, "median": 2, "pad": 3,
           "tensordot": 2, "outer_self": 2, "topk": 2, "svd_s": 2, "qr_absr": 2}
