"""C11 — in-place operations only change the array they are applied to."""
from __future__ import annotations

import random

import re
import warnings

import numpy as np

import progs
from common import Check


def err_sig(e):
    return re.sub(r"[0-9(),\[\]'-]+", "#", f"{type(e).__name__}: {e}")[:36]


def rand_key(rng, shape):
    """an assignment key valid for NumPy on `shape`; returns (key, kind)"""
    kind = rng.choice(["basic", "basic", "neg-step", "int", "list", "bool-np", "bool-dask", "ellipsis"])
    nd = len(shape)
    if kind == "basic":
        return tuple(slice(rng.choice([None, rng.randint(0, max(n - 1, 0))]), rng.choice([None, rng.randint(0, n)]), rng.choice([None, 1, 2])) for n in shape), kind
    if kind == "neg-step":
        return tuple(slice(None, None, rng.choice([-1, -2])) if i == 0 else slice(None) for i, n in enumerate(shape)), kind
    if kind == "int":
        return tuple(rng.randint(-n, n - 1) if (i == 0 and n > 0) else slice(None) for i, n in enumerate(shape)), kind
    if kind == "list":
        n = shape[0]
        if n == 0:
            return (slice(None),) * nd, "basic"
        idx = sorted(set(rng.randint(-n, n - 1) % n for _ in range(rng.randint(1, n))))
        return (idx,) + (slice(None),) * (nd - 1), kind
    if kind == "ellipsis":
        return (Ellipsis, slice(None, None, 2)), kind
    return None, kind        # boolean masks are built from the current value


def run_history(chk, da, rng, hid):
    rank = rng.choice([1, 1, 2, 2, 3])
    shape = tuple(rng.choice([1, 2, 3, 4, 6]) for _ in range(rank))
    src = (np.arange(int(np.prod(shape)), dtype="int64").reshape(shape) * 3) % 17 - 6
    src0 = src.copy()
    chunks = tuple(progs.rand_chunks_for(rng, n) for n in shape)
    x = da.from_array(src, chunks=chunks)
    masked_mode = rng.random() < 0.3
    if rng.random() < 0.5 and not masked_mode:
        x = x + 0            # not a bare source
    mirror = src.copy()          # masked values assigned into a plain array (NumPy's MaskedArray semantics are the oracle)
    if masked_mode:
        mirror = np.ma.array(mirror)
    others = []              # (collection, expected value, how derived)
    log = []
    nsteps = rng.choice([3, 5, 8])
    chk.case(("history", hid, shape, chunks), nontrivial=True,
             sample={"shape": shape, "chunks": chunks} if hid < 3 else None)

    def same(got, want):
        if isinstance(want, np.ma.MaskedArray) or isinstance(got, np.ma.MaskedArray):
            gm, wm = np.ma.getmaskarray(got), np.ma.getmaskarray(want)
            return got.shape == want.shape and np.array_equal(gm, wm) and np.array_equal(np.ma.getdata(got)[~gm], np.ma.getdata(want)[~wm])
        return np.array_equal(got, want)

    import random as _random
    wrng = _random.Random(f"C11-where-{hid}-{chk.seed}")

    def check_all(step):
        problems = []
        try:
            with warnings.catch_warnings():
                warnings.simplefilter("ignore")
                # the advertised keys must be the grid of the CURRENT name and be defined by the current graph
                import itertools
                from c03 import flat_keys
                keys = list(flat_keys(x.__dask_keys__()))
                grid = [(x.name, *idx) for idx in itertools.product(*[range(n) for n in x.numblocks])]
                if keys != grid:
                    problems.append(("stale-keys", "__dask_keys__ is not the block grid of the collection's current name"))
                elif any(k not in x.__dask_graph__() for k in keys):
                    problems.append(("stale-keys", "the current graph does not define the advertised keys"))
                got = x.compute(scheduler="sync")
            if not same(got, mirror):
                problems.append(("target", "x does not equal the NumPy result of the same assignments"))
        except Exception as e:  # noqa: BLE001
            problems.append(("target-raises", f"x.compute() raises {type(e).__name__}: {str(e)[:80]}"))
        for coll, want, how in others:
            if coll is x:
                continue        # a "derivation" that returned x itself is x (see DESIGN F9)
            try:
                with warnings.catch_warnings():
                    warnings.simplefilter("ignore")
                    got = coll.compute(scheduler="sync")
                if not same(got, want):
                    problems.append(("other", f"a collection derived earlier by `{how}` changed its value"))
            except Exception as e:  # noqa: BLE001
                problems.append(("other-raises", f"a collection derived earlier by `{how}` now raises {type(e).__name__}"))
        if not np.array_equal(src, src0):
            problems.append(("source", "the source ndarray was modified"))
        for cls, msg in problems:
            chk.violation(msg, {"shape": shape, "chunks": chunks, "history": log[: step + 1]}, signature={"class": cls, "last_op": log[step].split(" ")[0]})
        if not problems:
            chk.traces_validated += 1

    for step in range(nsteps):
        op = rng.choice(["derive", "setitem", "setitem", "setitem", "ufunc-out", "compute", "keys"])
        if not masked_mode and op == "ufunc-out" and wrng.random() < 0.5:
            op = "ufunc-out-where"
        if masked_mode and step == 0:
            op = "derive"        # a sibling taken before the first masked assignment
        chk.count("op:" + op)
        try:
            with warnings.catch_warnings():
                warnings.simplefilter("ignore")
                if op == "derive":
                    how = rng.choice(["x[::2]", "x.T", "x + 1", "x[...]", "x[0:]", "x.sum()", "x.rechunk(-1)"] if not masked_mode else ["x[::2]", "x.T", "x + 1", "x[0:]"])
                    coll = eval(how, {"x": x})
                    others.append((coll, eval(how, {"x": mirror.copy()}) if "rechunk" not in how else mirror.copy(), how))
                    if rng.random() < 0.5:
                        coll.compute(scheduler="sync")          # materialize the sibling before later assignments
                    log.append(f"derive {how}" + (" (is x)" if coll is x else ""))
                elif op == "setitem":
                    key, kind = rand_key(rng, shape)
                    while masked_mode and kind not in ("basic", "neg-step", "int"):
                        key, kind = rand_key(rng, shape)        # comparisons on masked data have their own semantics: keep the oracle simple
                    chk.count("key:" + kind)
                    vkind = rng.choice(["scalar", "array", "dask"])
                    if kind == "bool-np":
                        key = mirror > rng.randint(-6, 6)
                        vkind = "scalar"
                    elif kind == "bool-dask":
                        t = rng.randint(-6, 6)
                        key_np = mirror > t
                        key = x > t
                        vkind = "scalar"
                    val = rng.randint(-9, 9)
                    if masked_mode and kind in ("basic", "neg-step", "int") and rng.random() < 0.7:
                        tgt = np.ma.getdata(mirror)[key]
                        mv = np.ma.array(np.arange(tgt.size).reshape(tgt.shape) + 200, mask=(np.arange(tgt.size).reshape(tgt.shape) % 2 == 0)) \
                            if tgt.ndim else np.ma.masked
                        mirror[key] = mv
                        x[key] = mv
                        log.append(f"setitem key={kind} value=masked")
                        chk.count("value:masked")
                        check_all(step)
                        continue
                    if kind not in ("bool-np", "bool-dask") and vkind != "scalar":
                        tgt = mirror[key]
                        val_np = (np.arange(tgt.size).reshape(tgt.shape) + 100) if rng.random() < 0.7 or tgt.ndim == 0 else np.full(tgt.shape[-1:], 77)
                        val = da.from_array(val_np, chunks=-1) if vkind == "dask" and val_np.ndim else val_np
                        mirror[key] = val_np
                    elif kind == "bool-dask":
                        mirror[key_np] = val
                    else:
                        mirror[key] = val
                    x[key] = val
                    log.append(f"setitem key={kind} value={vkind}")
                elif op == "ufunc-out":
                    da.add(x, 1, out=x)
                    mirror += 1
                    log.append("ufunc-out add(x, 1, out=x)")
                elif op == "ufunc-out-where":
                    t = wrng.randint(-6, 6)
                    np.add(mirror, 10, out=mirror, where=mirror > t)
                    da.add(x, 10, out=x, where=x > t)
                    log.append(f"ufunc-out add(x, 10, out=x, where=x > {t})")
                elif op == "keys":
                    import dask
                    x.__dask_keys__()
                    if rng.random() < 0.5:
                        dask.compute(x, scheduler="sync")
                    log.append("keys (populate caches: __dask_keys__ / dask.compute)")
                else:
                    log.append("compute")
        except (NotImplementedError, ValueError, IndexError, TypeError) as e:
            # an unsupported key/value combination must raise *before* changing anything: re-sync the mirror is impossible, stop here
            log.append(f"{op} raised {type(e).__name__}")
            chk.count("unsupported:" + err_sig(e)[:28])
            return
        check_all(step)


def out_where_family(chk, da):
    """ufunc(..., out=x, where=m) with operands that are expressions (so the ufunc node is FUSED with its neighbours), masks that
    broadcast through size-1 axes over several blocks of x, scalar masks and x itself among the inputs; a collection derived from x
    before the call keeps its value, the source ndarray is untouched, x computes to NumPy's result of the same call"""
    import random as _random
    rng = _random.Random(f"C11-out-where-{chk.seed}")
    for it in range(500 if chk.tier == "thorough" else 70):
        rows, cols = rng.choice([4, 6]), rng.choice([3, 4])
        an = np.arange(float(rows * cols)).reshape(rows, cols) % 7
        bn = (np.arange(float(rows * cols)).reshape(rows, cols) * 3) % 5
        xn = -np.arange(float(rows * cols)).reshape(rows, cols) - 100
        src = xn.copy()
        chunks = (progs.rand_chunks_for(rng, rows), progs.rand_chunks_for(rng, cols))
        mask_kind = rng.choice(["row-broadcast", "col-broadcast", "full", "scalar-true", "1d-trailing", "expr-of-x"])
        lhs = rng.choice(["a*2", "a", "a+b", "x", "x*2"])
        rhs = rng.choice(["b", "b-1", "3.0", "x"])
        desc = {"shape": (rows, cols), "chunks": chunks, "mask": mask_kind, "call": f"np.add({lhs}, {rhs}, out=x, where=<{mask_kind}>)"}
        chk.count("out-where:" + mask_kind)
        chk.case(("out-where", rows, cols, repr(chunks), mask_kind, lhs, rhs, it), nontrivial=True)
        try:
            with warnings.catch_warnings():
                warnings.simplefilter("ignore")
                a, b = da.from_array(an, chunks=chunks), da.from_array(bn, chunks=chunks)
                x = da.from_array(src, chunks=chunks)
                pat_r = np.array([[(j + it) % 2 == 0 for j in range(cols)]])
                pat_c = np.array([[(i + it) % 3 != 0] for i in range(rows)])
                mn, m = {"row-broadcast": (pat_r, da.from_array(pat_r, chunks=(1, chunks[1]))),
                         "col-broadcast": (pat_c, da.from_array(pat_c, chunks=(chunks[0], 1))),
                         "full": (pat_r & pat_c, da.from_array(pat_r & pat_c, chunks=chunks)),
                         "scalar-true": (True, True),
                         "1d-trailing": (pat_r[0], da.from_array(pat_r[0], chunks=(chunks[1],))),
                         "expr-of-x": (xn < -105, x < -105)}[mask_kind]
                env_np = {"a": an, "b": bn, "x": xn}
                env_da = {"a": a, "b": b, "x": x}
                ln, ld = eval(lhs, {}, env_np), eval(lhs, {}, env_da)
                rn, rd = eval(rhs, {}, env_np), eval(rhs, {}, env_da)
                before = x[1:]
                want_before = xn[1:].copy()
                want = xn.copy()
                np.add(ln, rn, out=want, where=mn)
                np.add(ld, rd, out=x, where=m)
                got = np.asarray(x.compute(scheduler="sync"))
                got_before = np.asarray(before.compute(scheduler="sync"))
        except Exception as e:  # noqa: BLE001
            chk.violation(f"ufunc with out= and where= raises {type(e).__name__}: {str(e)[:100]}", desc,
                          signature={"class": "out-where-raises", "mask": mask_kind, "error": type(e).__name__})
            continue
        if not np.array_equal(got, want):
            chk.violation("x after np.add(..., out=x, where=m) differs from NumPy's result of the same call",
                          {**desc, "got": got.tolist(), "want": want.tolist()}, signature={"class": "out-where-value", "mask": mask_kind})
        elif not np.array_equal(got_before, want_before):
            chk.violation("a slice of x taken BEFORE the out= call changed", {**desc, "got": got_before.tolist(), "want": want_before.tolist()},
                          signature={"class": "other-target-changed", "via": "out-where", "mask": mask_kind})
        elif not np.array_equal(src, -np.arange(float(rows * cols)).reshape(rows, cols) - 100):
            chk.violation("the source ndarray of x was modified by an out= call", desc, signature={"class": "source-modified", "via": "out-where"})
        else:
            chk.traces_validated += 1


def key_mutation_family(chk, da):
    """an index array used in an assignment is itself updated in place afterwards: the assignment already made must not change"""
    import random as _random
    rng = _random.Random(f"C11-key-mutation-{chk.seed}")
    for it in range(400 if chk.tier == "thorough" else 60):
        rows, cols = rng.choice([3, 4, 6]), rng.choice([2, 3])
        a = np.arange(float(rows * cols)).reshape(rows, cols)
        chunks = (progs.rand_chunks_for(rng, rows), progs.rand_chunks_for(rng, cols))
        kind = rng.choice(["bool-1d-on-2d", "int-array", "bool-full", "int-array-slice"])
        try:
            with warnings.catch_warnings():
                warnings.simplefilter("ignore")
                x = da.from_array(a.copy(), chunks=chunks)
                if kind == "bool-1d-on-2d":
                    kn = np.array([rng.random() < 0.4 for _ in range(rows)])
                    k = da.from_array(kn, chunks=progs.rand_chunks_for(rng, rows))
                    x[k] = -1.0
                    mutate = lambda: k.__setitem__(rng.randrange(rows), True)          # noqa: E731
                elif kind == "bool-full":
                    k = da.from_array(a % 2 == 0, chunks=chunks)
                    x[k] = -1.0
                    mutate = lambda: k.__setitem__((rng.randrange(rows), rng.randrange(cols)), True)   # noqa: E731
                elif kind == "int-array":
                    k = da.from_array(np.array([0]), chunks=1)
                    x[k] = -5.0
                    mutate = lambda: k.__setitem__(0, rows - 1)                          # noqa: E731
                else:
                    k = da.from_array(np.array([0, 1]), chunks=2)
                    x[k, 1:] = -7.0
                    mutate = lambda: k.__setitem__(1, rows - 1)                          # noqa: E731
                peek = rng.random() < 0.5
                before = x.compute(scheduler="sync") if peek else None
                twin = x.copy().compute(scheduler="sync") if not peek else before
                mutate()
                after = x.compute(scheduler="sync")
        except (NotImplementedError, ValueError, IndexError, TypeError) as e:
            chk.count("key-mutation:unsupported:" + type(e).__name__)
            continue
        chk.count("key-mutation:" + kind)
        chk.case(("key-mutation", kind, rows, cols, repr(chunks), it), nontrivial=True, sample={"kind": kind, "chunks": chunks} if it < 2 else None)
        if not np.array_equal(twin, after):
            chk.violation(f"updating an index array in place changed an assignment made earlier with it ({kind})",
                          {"kind": kind, "chunks": chunks, "x_before": np.asarray(twin).tolist(), "x_after": after.tolist()},
                          signature={"class": "other-target-changed", "via": "index-array", "kind": kind})
        else:
            chk.traces_validated += 1


def run(chk: Check):
    import dask_array as da
    chk.rule = ("histories of 3-8 steps on one target array: derivations taken before later assignments (slices, transposes, elemwise, "
                "reductions, and the identity-returning ones), assignments with basic / negative-step / integer / list / NumPy-bool / "
                "dask-bool / ellipsis keys and scalar / array / dask-array values, ufunc out=x, computes; after EVERY step the target is "
                "compared with the NumPy result of the same assignments, every other live collection with the value it had when derived "
                "(a derivation that returned the target object itself counts as the target), and the source ndarray with its original")
    chk.assumptions = ["collection identity is Python object identity: x[:] / x[...] / asarray(x) return x itself and therefore track it (DESIGN F9)"]
    chk.run_proofs()
    model_family(chk, da)
    fam_setitem_plan(chk, da)
    key_mutation_family(chk, da)
    out_where_family(chk, da)
    n = 4000 if chk.tier == "thorough" else 400
    for hid in range(n):
        run_history(chk, da, chk.rng, hid)


def replay(path):
    print(open(path).read())


# ==========================================================================
# Model correspondence (coq/theories/Mutation.v): pointer / cache evolution of real collections, and the
# 1-D denotation of slice assignment
import dask  # noqa: E402

from common import cbool, clist, coq_eval_cases, copt, cslice, ctuple, cz  # noqa: E402

M_HEADER = "From DA Require Import PyBase Mutation.\nOpen Scope Z_scope.\n"
H_CASE = "list op * list (list (nat * (bool * bool * bool * bool) * Z))"
H_CHK = "Definition chk (c : " + H_CASE + ") : bool := let '(ops, real) := c in trace_ok 1%positive ops real."
D_CASE = "list Z * pslice * value * list Z"
D_CHK = "Definition chk (c : " + D_CASE + ") : bool := let '(x, k, v, r) := c in zlist_eqb (setitem_den x k v) r."

DKINDS = {
    "DSliceAll": lambda x, da: x[:], "DEllipsis": lambda x, da: x[...], "DAsarray": lambda x, da: da.asarray(x),
    "DAstypeSame": lambda x, da: x.astype(x.dtype), "DAdd1": lambda x, da: x + 1, "DUAdd1": lambda x, da: da.add(x, 1),
    "DNeg": lambda x, da: -x, "DStep2": lambda x, da: x[::2],
}
SET_KEYS = {1: slice(None, None, 2), 2: slice(0, 1), 3: slice(None)}
CACHE_ATTRS = ("_lowered_expr", "_lowered_expr_optimize_graph", "_cached_dask_keys", "_optimized")


class SkipHistory(Exception):
    pass


def gen_ops(rng, n):
    ops, nh = [], 1
    for _ in range(n):
        kind = rng.choice(["Derive", "Derive", "SetItem", "SetItem", "SetMask", "UfuncOut", "ComputeChunkSizes", "Compute", "Compute", "Keys", "Optimize"])
        h = rng.randrange(nh)
        if kind == "Derive":
            ops.append(("Derive", h, rng.choice(sorted(DKINDS))))
            nh += 1
        elif kind == "SetItem":
            ops.append(("SetItem", h, rng.choice([1, 2, 3]), rng.choice([1, 2, 3])))
        elif kind == "SetMask":
            ops.append(("SetMask", h, rng.randint(-3, 6), rng.choice([0, 50])))
        elif kind == "UfuncOut":
            ops.append(("UfuncOut", h, rng.randrange(nh)))
        elif kind == "Compute":
            ops.append(("Compute", h, rng.random() < 0.7))
        elif kind == "Optimize":
            ops.append(("Optimize", h))
            nh += 1
        else:
            ops.append((kind, h))
    return ops


def replay_ops(da, ops, src, chunks):
    """run the ops on real collections; returns (coq op literals, observed trace, final values per handle, mirror values)"""
    H = [da.from_array(src, chunks=chunks)]
    names = {}
    lits, trace = [], []
    # mirror of the model's expression TERMS (per Python object): the model identifies expressions structurally, the
    # implementation by name; a history on which two structurally different constructions get ONE real name (e.g.
    # compute_chunk_sizes(optimize(e)) and optimize(compute_chunk_sizes(e))) is outside the model and skipped
    terms = {id(H[0]): ("src",)}
    name_term = {}
    for op in ops:
        kind = op[0]
        with warnings.catch_warnings():
            warnings.simplefilter("ignore")
            if kind == "Derive":
                H.append(DKINDS[op[2]](H[op[1]], da))
                lits.append(f"Derive {op[1]}%nat {op[2]}")
            elif kind == "SetItem":
                H[op[1]][SET_KEYS[op[2]]] = 10 * op[3]
                lits.append(f"SetItem {op[1]}%nat {op[2]}%positive {op[3]}%positive")
            elif kind == "SetMask":
                x = H[op[1]]
                x[x > op[2]] = op[3]
                lits.append(f"SetMask {op[1]}%nat {cz(op[2])} {cz(op[3])}")
            elif kind == "UfuncOut":
                da.add(H[op[1]], 1, out=H[op[2]])
                lits.append(f"UfuncOut {op[1]}%nat {op[2]}%nat")
            elif kind == "ComputeChunkSizes":
                H[op[1]].compute_chunk_sizes()
                lits.append(f"ComputeChunkSizes {op[1]}%nat")
            elif kind == "Compute":
                with dask.config.set({"array.optimize-graph": op[2]}):
                    H[op[1]].compute(scheduler="sync")
                lits.append(f"Compute {op[1]}%nat {cbool(op[2])}")
            elif kind == "Keys":
                H[op[1]].__dask_keys__()
                lits.append(f"Keys {op[1]}%nat")
            elif kind == "Optimize":
                x = H[op[1]]
                y = x.optimize()
                H.append(y)
                if y is x or y.expr._name == x.expr._name:
                    lits.append(f"Optimize {op[1]}%nat None")
                elif y.expr._name in names:
                    # optimization landed on an expression the history already built (e.g. a no-op slice simplified away):
                    # lowering is not modelled, ELower can only name NEW expressions
                    raise SkipHistory()
                else:
                    o = names.setdefault(y.expr._name, len(names) + 1)
                    lits.append(f"Optimize {op[1]}%nat (Some {o}%positive)")
        if kind == "Derive":
            if H[-1] is not H[op[1]]:
                terms[id(H[-1])] = ("der", op[2], terms[id(H[op[1]])])
        elif kind == "SetItem":
            terms[id(H[op[1]])] = ("set", terms[id(H[op[1]])], op[2], op[3])
        elif kind == "SetMask":
            terms[id(H[op[1]])] = ("where", terms[id(H[op[1]])], op[2], op[3])
        elif kind == "UfuncOut":
            terms[id(H[op[2]])] = ("out", terms[id(H[op[1]])], terms[id(H[op[2]])])
        elif kind == "ComputeChunkSizes":
            terms[id(H[op[1]])] = ("chunks", terms[id(H[op[1]])])
        elif kind == "Optimize" and H[-1] is not H[op[1]]:
            terms[id(H[-1])] = terms[id(H[op[1]])] if H[-1].expr._name == H[op[1]].expr._name else ("lower", H[-1].expr._name)
        for x in H:
            t = terms[id(x)]
            if name_term.setdefault(x.expr._name, t) != t:
                raise SkipHistory()
        row = []
        for x in H:
            first = next(i for i, y in enumerate(H) if y is x)
            flags = tuple(a in x.__dict__ for a in CACHE_ATTRS)
            nid = names.setdefault(x.expr._name, len(names) + 1)
            row.append((first, flags, nid))
        trace.append(row)
    return lits, trace, H


def np_replay(ops, src):
    """the same history on NumPy values: every derived handle holds the VALUE it had when derived (a copy); the
    identity-returning derivations (and optimize() of an already optimized object) share the object"""
    H = [{"v": src.copy(), "opt": False}]
    for op in ops:
        kind = op[0]
        if kind == "Derive":
            o = H[op[1]]
            x = o["v"]
            H.append(o if op[2] in ("DSliceAll", "DEllipsis", "DAsarray", "DAstypeSame") else
                     {"v": {"DAdd1": x + 1, "DUAdd1": x + 1, "DNeg": -x, "DStep2": x[::2].copy()}[op[2]], "opt": False})
        elif kind == "SetItem":
            H[op[1]]["v"][SET_KEYS[op[2]]] = 10 * op[3]
        elif kind == "SetMask":
            x = H[op[1]]["v"]
            x[x > op[2]] = op[3]
        elif kind == "UfuncOut":
            H[op[2]]["v"] = H[op[1]]["v"] + 1
        elif kind == "Optimize":
            o = H[op[1]]
            H.append(o if o["opt"] else {"v": o["v"].copy(), "opt": True})
    return [o["v"] for o in H]


def model_family(chk, da):
    rng = random.Random(f"{chk.pid}-model-family-{chk.seed}")     # own stream: the checks above keep theirs
    # replay of the witness of C11_optimized_flag_stale_refuted on the real code
    with warnings.catch_warnings():
        warnings.simplefilter("ignore")
        y = da.from_array(np.arange(6), chunks=3).optimize()
        y[::2] = 10
        w = {"optimized_marker_kept": "_optimized" in y.__dict__, "caches_dropped": "_lowered_expr" not in y.__dict__,
             "optimize_returns_self": y.optimize() is y, "root": type(y.expr).__name__,
             "value_ok": bool(np.array_equal(y.compute(scheduler="sync"), [10, 1, 10, 3, 10, 5]))}
    chk.extra["optimized_flag_stale_witness"] = w
    chk.count("witness:stale-_optimized-marker:" + ("reproduced" if w["optimized_marker_kept"] and w["caches_dropped"] and w["optimize_returns_self"] else "not-reproduced"))
    if not w["value_ok"]:
        chk.violation("assignment to an optimized collection computes a wrong value", w, signature={"class": "target", "last_op": "setitem"})
    n = 3000 if chk.tier == "thorough" else 160
    cases, descs = [], []
    for hid in range(n):
        size = rng.choice([1, 3, 6, 7])
        src = (np.arange(size, dtype="int64") * 3) % 7 - 2
        chunks = (progs.rand_chunks_for(rng, size),)
        ops = gen_ops(rng, rng.choice([3, 5, 8, 10]))
        # keep the history inside the domain where every op is defined: out= needs equal shapes
        shapes = [size]
        ok_ops = []
        for op in ops:
            if op[0] == "Derive":
                s = shapes[op[1]]
                shapes.append((s + 1) // 2 if op[2] == "DStep2" else s)
            elif op[0] == "Optimize":
                shapes.append(shapes[op[1]])
            elif op[0] == "UfuncOut" and shapes[op[1]] != shapes[op[2]]:
                continue
            ok_ops.append(op)
        ops = ok_ops
        for op in ops:
            chk.count("model-op:" + op[0])
        try:
            lits, trace, H = replay_ops(da, ops, src, chunks)
        except SkipHistory:
            chk.count("model-history-skipped:one-name-for-two-constructions(outside the model)")
            continue
        except Exception as e:  # noqa: BLE001
            chk.violation(f"a history of in-place operations raises {type(e).__name__}: {str(e)[:100]}", {"ops": ops, "size": size, "chunks": chunks},
                          signature={"class": "model-history-raises", "error": err_sig(e)})
            continue
        chk.case(("model-history", size, chunks, tuple(ops)), nontrivial=len(ops) > 2,
                 sample={"ops": ops} if hid < 2 else None)
        cases.append(ctuple("[" + "; ".join(lits) + "]",
                            "[" + "; ".join("[" + "; ".join(ctuple(f"{a}%nat", ctuple(*map(cbool, f)), cz(nid)) for a, f, nid in row) + "]"
                                            for row in trace) + "]"))
        descs.append({"ops": ops, "size": size, "chunks": chunks, "trace": trace})
        # property side, independent of the model: final values against a NumPy replay with value-copy semantics
        want = np_replay(ops, src)
        if want is not None:
            bad = None
            for i, (x, w) in enumerate(zip(H, want)):
                with warnings.catch_warnings():
                    warnings.simplefilter("ignore")
                    got = x.compute(scheduler="sync")
                if not np.array_equal(got, w):
                    bad = i
                    break
            if bad is not None:
                chk.violation(f"handle {bad} does not hold the value NumPy gives for the same history (copies at derivation)",
                              {"ops": ops, "size": size, "chunks": chunks}, signature={"class": "model-history-value"})
            else:
                chk.traces_validated += 1
    for i in coq_eval_cases(M_HEADER, H_CASE, H_CHK, cases, chunk=60)[0]:
        chk.tie_break("mutation-model", {"case": descs[i], "literal": cases[i][:800]})
    chk.traces_validated += len(cases)

    # 1-D denotation of slice assignment: dask's x[k] = v against setitem_den, exactly
    dcases, ddescs = [], []
    m = 6000 if chk.tier == "thorough" else 500
    for it in range(m):
        size = rng.choice([0, 1, 2, 3, 5, 8])
        bound = size + 2
        k = slice(rng.choice([None, rng.randint(-bound, bound)]), rng.choice([None, rng.randint(-bound, bound)]),
                  rng.choice([None, 1, 2, 3, -1, -2, -3]))
        scalar = rng.random() < 0.4
        if it == 0:      # corpus: finding C11-A
            size, k, scalar = 2, slice(0, 1, -1), False
        src = (np.arange(size, dtype="int64") * 5) % 11 - 3
        sel = list(range(*k.indices(size)))
        if scalar:
            v, vl = rng.randint(-9, 9) + 100, None
        else:
            vl = [100 + i for i in range(len(sel))]
            v = np.array(vl, dtype="int64")
        chk.count("setitem-den:" + ("scalar" if vl is None else "seq") + (":neg-step" if (k.step or 1) < 0 else ""))
        x = da.from_array(src.copy(), chunks=(progs.rand_chunks_for(rng, size),))
        try:
            with warnings.catch_warnings():
                warnings.simplefilter("ignore")
                x[k] = v
                got = x.compute(scheduler="sync")
        except Exception as e:  # noqa: BLE001
            chk.count("setitem-den:raises:" + err_sig(e)[:24])
            chk.violation(f"1-D slice assignment that NumPy accepts raises {type(e).__name__}: {str(e)[:100]}",
                          {"size": size, "key": str(k), "value": vl if vl is not None else v},
                          signature={"class": "setitem-den-raises", "empty_neg_step": (k.step or 1) < 0 and not sel, "error": err_sig(e)})
            continue
        want = src.copy()
        want[k] = v
        chk.case(("setitem-den", size, (k.start, k.stop, k.step), vl), nontrivial=len(sel) > 0)
        if not np.array_equal(got, want):
            chk.violation("1-D slice assignment differs from NumPy", {"size": size, "key": str(k), "value": vl if vl is not None else v},
                          signature={"class": "setitem-den-value", "neg_step": (k.step or 1) < 0})
            continue
        dcases.append(ctuple(clist(src), cslice(k), f"(Scalar {cz(v)})" if vl is None else f"(Seq {clist(vl)})", clist(got)))
        ddescs.append({"size": size, "key": str(k), "value": vl if vl is not None else v})
    for i in coq_eval_cases(M_HEADER, D_CASE, D_CHK, dcases)[0]:
        chk.tie_break("setitem_den-model", {"case": ddescs[i], "literal": dcases[i]})
    chk.traces_validated += len(dcases)


# ==========================================================================
# Model correspondence (coq/theories/SetitemPlan.v): the PER-BLOCK PLAN of x[index] = value read back from the real
# SetItem layer (Alias = block passed through; Task(setitem, block, value[value_indices], block_indices)), and the
# output of parse_and_validate_assignment, compared exactly with `parse` / `plan_obs` inside Coq; the computed result is
# compared with NumPy.
P_HEADER = "From DA Require Import PyBase Slicing SetitemPlan.\nOpen Scope Z_scope.\n"
P_CASE = "list (list Z) * list sidx * list Z * option parsed * option (option (list bres))"
P_CHK = ("Definition chk (c : " + P_CASE + ") : bool := let '(chunks, idx, vshape, rp, rl) := c in "
         "oparsed_eqb (parse idx (map zsum chunks) vshape) rp && obs_eqb (plan_obs chunks idx vshape) rl && "
         "match rp with Some pr => forallb wf_pidx1_b (p_idx pr) | None => true end.")
# the FULL denotation statement of Properties/C11.v (not proved for touched blocks), decided inside Coq at every position
D2_CASE = "list (list Z) * list sidx * list Z"
D2_CHK = "Definition chk (c : " + D2_CASE + ") : bool := let '(chunks, idx, vshape) := c in den_ok_b chunks idx vshape."


def _cslice3(s):
    return f"(mkslice {copt(s.start)} {copt(s.stop)} {copt(s.step)})"


def c_sidx(e):
    if isinstance(e, slice):
        return f"SSlice {_cslice3(e)}"
    if isinstance(e, (list, np.ndarray)):
        return f"SList {clist([int(v) for v in e])}"
    return f"SInt {cz(int(e))}"


def c_pidx1(e):
    if isinstance(e, slice):
        return f"PSl {cz(e.start)} {cz(e.stop)} {cz(e.step)}"
    if isinstance(e, np.ndarray):
        return f"PLst {clist([int(v) for v in e])}"
    return f"PInt {cz(int(e))}"


def c_parsed(out):
    indices, reverse, offset, value_offset, vcommon, base, nb = out
    return ("(Some (Build_parsed " + clist(indices, c_pidx1) + " " + clist(reverse) + " " + cz(offset) + " " + cz(value_offset) + " "
            + clist(vcommon) + " " + clist(base, lambda b: cbool(b is not None)) + " " + clist(nb) + "))")


def aligned_key(key):
    """no integer index stands before a list index or a negative-step slice (where setitem_array_expr went wrong before ce7c1de;
    kept in the violation signatures so that a regression is classified)"""
    seen_int = False
    for e in key:
        if isinstance(e, slice):
            if seen_int and (e.step or 1) < 0:
                return False
        elif isinstance(e, list):
            if seen_int:
                return False
        else:
            seen_int = True
    return True


def np_transposes(key):
    """NumPy moves the advanced dimensions first when an integer and a list are separated by a slice: outside outer indexing"""
    adv = [i for i, e in enumerate(key) if not isinstance(e, slice)]
    return any(isinstance(e, list) for e in key) and len(adv) > 1 and adv[-1] - adv[0] + 1 != len(adv)


def read_plan(expr, numblocks):
    """SetItem._layer() -> one entry per output key (C order): None = Alias of the input block, else (block_indices, value_indices)"""
    import itertools
    from dask._task_spec import Alias, Task
    from dask_array._collection import Array
    from dask_array.slicing._utils import setitem as kernel
    calls, depth = [], [0]
    orig = Array.__getitem__

    def recording(self, idx):
        depth[0] += 1
        try:
            r = orig(self, idx)
        finally:
            depth[0] -= 1
        if depth[0] == 0:
            calls.append(idx)
        return r
    Array.__getitem__ = recording
    try:
        layer = expr._layer()
    finally:
        Array.__getitem__ = orig
    out, k = [], 0
    for bi in itertools.product(*[range(n) for n in numblocks]):
        t = layer[(expr._name, *bi)]
        if isinstance(t, Alias):
            if t.target != (expr.array._name, *bi):
                raise AssertionError("alias to a different block")
            out.append(None)
            continue
        assert isinstance(t, Task) and t.func is kernel and t.args[0].key == (expr.array._name, *bi)
        vi = calls[k]
        k += 1
        out.append((list(t.args[2].args), list(vi)))
    assert k == len(calls)
    return out


def c_bres(b):
    if b is None:
        return "BUntouched"
    bi, vi = b
    ell = bool(vi) and vi[0] is Ellipsis
    if ell:
        vi = vi[1:]
    return f"BTouched {clist(bi, c_sidx)} {clist(vi, c_sidx)} {cbool(ell)}"


def gen_plan_case(rng, it):
    rank = rng.choice([1, 1, 1, 2, 2, 3])
    shape = tuple(rng.choice([1, 2, 3, 4, 5, 6, 7, 9]) for _ in range(rank))
    chunks = tuple(progs.rand_chunks_for(rng, n) for n in shape)
    nent = rank if rng.random() < 0.8 else rng.randint(0, rank + (1 if rng.random() < 0.2 else 0))
    key, nlists = [], 0
    for ax in range(nent):
        n = shape[min(ax, rank - 1)]
        r = rng.random()
        if r < 0.55:
            bound = n + 2
            key.append(slice(rng.choice([None, rng.randint(-bound, bound)]), rng.choice([None, rng.randint(-bound, bound)]),
                             rng.choice([None, 1, 1, 2, 3, -1, -2, -3] + ([0] if rng.random() < 0.03 else []))))
        elif r < 0.75:
            key.append(rng.randint(-n, n - 1) if rng.random() < 0.95 else rng.choice([n, -n - 1]))
        elif nlists == 0 or rng.random() < 0.05:
            nlists += 1
            m = rng.randint(1, n + 1)
            l = [rng.randint(-n, n - 1) for _ in range(m)]
            style = rng.choice(["sorted", "unsorted", "repeated", "unique"])
            if style == "sorted":
                l = sorted(v % n for v in l)
            elif style == "unique":
                l = list(dict.fromkeys(v % n for v in l))
            elif style == "repeated":
                l = l + [l[0]]
            if rng.random() < 0.03:
                l[rng.randrange(len(l))] = rng.choice([n, -n - 1])
            key.append(l)
        else:
            key.append(slice(None))
    # the shape outer indexing implies (NumPy's, unless it transposes)
    implied = []
    for ax, n in enumerate(shape):
        e = key[ax] if ax < len(key) else slice(None)
        if isinstance(e, slice):
            implied.append(len(range(*e.indices(n))) if e.step != 0 else 1)
        elif isinstance(e, list):
            implied.append(len(e))
    vk = rng.choice(["scalar", "one", "full", "full", "full", "trailing", "ones-mixed", "lead-ones", "wrong"])
    if vk == "scalar":
        vshape = ()
    elif vk == "one":
        vshape = (1,)
    elif vk == "full":
        vshape = tuple(implied)
    elif vk == "trailing":
        vshape = tuple(implied[rng.randint(0, len(implied)):])
    elif vk == "ones-mixed":
        vshape = tuple(1 if rng.random() < 0.5 else m for m in implied)
    elif vk == "lead-ones":
        vshape = (1,) * rng.randint(1, 2) + tuple(implied)
    else:
        vshape = tuple(m + rng.choice([0, 1, -1]) if m > 0 else m + rng.choice([0, 1]) for m in implied) or (2,)
    return shape, chunks, tuple(key), vshape, vk


PLAN_CORPUS = [
    # (shape, chunks, key, value shape): minimal reproducers of the findings first
    ((4, 4), ((2, 2), (2, 2)), (2, [0, 1]), (2,)),                      # C11-S1 (fixed ce7c1de): integer before a list raised TypeError while building the graph
    ((4, 4), ((2, 2), (2, 2)), (1, slice(None, None, -1)), (4,)),       # C11-S1 (fixed ce7c1de): integer before a reversed slice raised IndexError
    ((2, 3, 3), ((2,), (3,), (3,)), (1, slice(None, None, -1), slice(None)), (3, 3)),   # C11-S3 (fixed ce7c1de): the WRONG value axis was reversed
    ((2, 4), ((1, 1), (4,)), ([0, 1], 0), (1, 2)),                      # C11-S4 (fixed ed2da03): Ellipsis not inserted: IndexError
    ((2, 4), ((1, 1), (4,)), (slice(0, 2), 0), (1, 2)),                 # C11-S4b (fixed ed2da03): ... or a shape mismatch at compute
    ((1, 2, 2), ((1,), (1, 1), (2,)), (0, slice(None), [0, 1]), (2, 2)),   # C11-S5: integer and list separated by a slice, two blocks
    ((2,), ((2,),), (slice(0, 1, -1),), (0,)),                          # C11-A
    ((4, 6), ((2, 2), (3, 3)), (slice(None, None, -1), [5, 0, 2]), (4, 3)),
    ((6,), ((2, 4),), ([2, 2, 5, 2],), (4,)),
]


def fam_setitem_plan(chk, da):
    from dask_array.slicing._setitem import parse_and_validate_assignment
    rng = random.Random(f"{chk.pid}-setitem-plan-{chk.seed}")
    n = 12000 if chk.tier == "thorough" else 900
    cases, descs, dcases, ddescs = [], [], [], []
    for it in range(n):
        if it < len(PLAN_CORPUS):
            shape, chunks, key, vshape = PLAN_CORPUS[it]
            vk = "corpus"
        else:
            shape, chunks, key, vshape, vk = gen_plan_case(rng, it)
        desc = {"shape": shape, "chunks": chunks, "key": repr(key), "value_shape": vshape}
        al = aligned_key(key)
        # the Ellipsis rule of setitem_array_expr (`value_ndim > len(indices)`) misses a value with MORE dimensions than the
        # indexing result but not more than the array (integer indices present)
        n_implied = sum(1 for ax in range(len(shape)) if ax >= len(key) or not isinstance(key[ax], int))
        ell_gap = n_implied < len(vshape) <= len(shape)
        a = (np.arange(int(np.prod(shape)), dtype="int64").reshape(shape) * 7) % 23 - 9
        size = int(np.prod(vshape))
        val = np.arange(100, 100 + size, dtype="int64").reshape(vshape)
        chk.count("plan:value:" + vk)
        for e in key:
            chk.count("plan:entry:" + ("list" if isinstance(e, list) else "int" if not isinstance(e, slice) else
                                       "slice-neg" if (e.step or 1) < 0 else "slice-pos"))
        # NumPy
        want = a.copy()
        try:
            want[key] = val
        except Exception as e:  # noqa: BLE001
            want = None
        if np_transposes(key):
            want = "transposed"
        # the real parse
        try:
            rp = c_parsed(parse_and_validate_assignment(key, shape, vshape))
        except (NotImplementedError, ValueError, IndexError) as e:
            rp = "None"
            chk.count("plan:parse-raises:" + type(e).__name__)
        # the real assignment and its layer
        x = da.from_array(a.copy(), chunks=chunks)
        rl, layer_err = "None", None
        try:
            with warnings.catch_warnings():
                warnings.simplefilter("ignore")
                x[key] = val
            assigned = True
        except (NotImplementedError, ValueError, IndexError):
            assigned = False
        if assigned != (rp != "None"):
            chk.tie_break("setitem-plan:__setitem__ and parse_and_validate_assignment disagree on acceptance", desc)
            continue
        if assigned:
            if type(x.expr).__name__ != "SetItem":
                chk.tie_break("setitem-plan:the assignment did not build a SetItem expression", desc)
                continue
            try:
                with warnings.catch_warnings():
                    warnings.simplefilter("ignore")
                    real = read_plan(x.expr, x.numblocks)
                rl = "(Some (Some " + clist(real, c_bres) + "))"
                chk.count("plan:blocks-touched", sum(b is not None for b in real))
                chk.count("plan:blocks-untouched", sum(b is None for b in real))
            except (TypeError, IndexError, AttributeError, ValueError) as e:
                rl, layer_err = "(Some None)", e
        chk.case(("setitem-plan", shape, chunks, repr(key), vshape), nontrivial=assigned, sample=desc if it in (7, 8) else None)
        cases.append(ctuple(clist(chunks, clist), clist(key, c_sidx), clist(vshape), rp, rl))
        descs.append(desc)
        # property side: the computed value against NumPy
        if not assigned:
            if isinstance(want, np.ndarray):
                chk.count("plan:dask-refuses-what-numpy-accepts")
            continue
        if layer_err is not None:
            chk.count("plan:layer-raises:" + type(layer_err).__name__)
            chk.violation(f"x[index] = value is accepted but building its graph raises {type(layer_err).__name__}: {str(layer_err)[:80]}", desc,
                          signature={"class": "setitem-plan-crash", "aligned": al, "ell_gap": ell_gap, "np_transposes": np_transposes(key),
                                     "error": type(layer_err).__name__})
            continue
        try:
            with warnings.catch_warnings():
                warnings.simplefilter("ignore")
                got = x.compute(scheduler="sync")
        except Exception as e:  # noqa: BLE001
            chk.count("plan:compute-raises:" + type(e).__name__ + ("" if isinstance(want, np.ndarray) else ":numpy-refuses-too"))
            if want is None:
                continue        # NumPy refuses this assignment as well (e.g. a size-1 ARRAY into an integer-indexed element): no oracle
            chk.violation(f"x[index] = value is accepted but computing it raises {type(e).__name__}: {str(e)[:80]}", desc,
                          signature={"class": "setitem-plan-crash", "aligned": al, "ell_gap": ell_gap, "np_transposes": np_transposes(key),
                                     "error": type(e).__name__})
            continue
        if isinstance(want, str):
            chk.count("plan:numpy-transposes-advanced-dims(value not compared)")
        elif want is None:
            chk.count("plan:dask-accepts-what-numpy-refuses")
        elif not np.array_equal(got, want):
            chk.violation("x[index] = value computes something else than NumPy", {**desc, "got": got.tolist(), "want": want.tolist()},
                          signature={"class": "setitem-plan-value", "aligned": al, "ell_gap": ell_gap})
        else:
            chk.traces_validated += 1
            if len(key) <= len(shape):      # (since the repairs ce7c1de / ed2da03: no `aligned` / Ellipsis side condition)
                dcases.append(ctuple(clist(chunks, clist), clist(key, c_sidx), clist(vshape)))
                ddescs.append(desc)
    for i in coq_eval_cases(P_HEADER, P_CASE, P_CHK, cases, chunk=150)[0]:
        chk.tie_break("setitem-plan-model", {"case": descs[i], "literal": cases[i][:1500]})
    chk.traces_validated += len(cases)
    chk.count("plan:denotation-statement-decided-in-coq", len(dcases))
    for i in coq_eval_cases(P_HEADER, D2_CASE, D2_CHK, dcases, chunk=150)[0]:
        chk.tie_break("setitem-plan-denotation(np_setitem vs plan_setitem)", {"case": ddescs[i], "literal": dcases[i][:1500]})
    chk.traces_validated += len(dcases)
