"""C11 — in-place operations only change the array they are applied to."""
from __future__ import annotations

import re
import warnings

import numpy as np

import progs
from common import Check


def err_sig(e):
    return re.sub(r"[0-9(),\[\]'-]+", "#", f"{type(e).__name__}: {e}")[:36]


def rand_key(rng, shape):
    """an assignment key valid for NumPy on `shape`; returns (key, kind)"""
    kind = rng.choice(["basic", "basic", "neg-step", "int", "list", "bool-np", "bool-dask", "ellipsis"])
    nd = len(shape)
    if kind == "basic":
        return tuple(slice(rng.choice([None, rng.randint(0, max(n - 1, 0))]), rng.choice([None, rng.randint(0, n)]), rng.choice([None, 1, 2])) for n in shape), kind
    if kind == "neg-step":
        return tuple(slice(None, None, rng.choice([-1, -2])) if i == 0 else slice(None) for i, n in enumerate(shape)), kind
    if kind == "int":
        return tuple(rng.randint(-n, n - 1) if (i == 0 and n > 0) else slice(None) for i, n in enumerate(shape)), kind
    if kind == "list":
        n = shape[0]
        if n == 0:
            return (slice(None),) * nd, "basic"
        idx = sorted(set(rng.randint(-n, n - 1) % n for _ in range(rng.randint(1, n))))
        return (idx,) + (slice(None),) * (nd - 1), kind
    if kind == "ellipsis":
        return (Ellipsis, slice(None, None, 2)), kind
    return None, kind        # boolean masks are built from the current value


def run_history(chk, da, rng, hid):
    rank = rng.choice([1, 1, 2, 2, 3])
    shape = tuple(rng.choice([1, 2, 3, 4, 6]) for _ in range(rank))
    src = (np.arange(int(np.prod(shape)), dtype="int64").reshape(shape) * 3) % 17 - 6
    src0 = src.copy()
    chunks = tuple(progs.rand_chunks_for(rng, n) for n in shape)
    x = da.from_array(src, chunks=chunks)
    masked_mode = rng.random() < 0.3
    if rng.random() < 0.5 and not masked_mode:
        x = x + 0            # not a bare source
    mirror = src.copy()          # masked values assigned into a plain array (NumPy's MaskedArray semantics are the oracle)
    if masked_mode:
        mirror = np.ma.array(mirror)
    others = []              # (collection, expected value, how derived)
    log = []
    nsteps = rng.choice([3, 5, 8])
    chk.case(("history", hid, shape, chunks), nontrivial=True,
             sample={"shape": shape, "chunks": chunks} if hid < 3 else None)

    def same(got, want):
        if isinstance(want, np.ma.MaskedArray) or isinstance(got, np.ma.MaskedArray):
            gm, wm = np.ma.getmaskarray(got), np.ma.getmaskarray(want)
            return got.shape == want.shape and np.array_equal(gm, wm) and np.array_equal(np.ma.getdata(got)[~gm], np.ma.getdata(want)[~wm])
        return np.array_equal(got, want)

    def check_all(step):
        problems = []
        try:
            with warnings.catch_warnings():
                warnings.simplefilter("ignore")
                # the advertised keys must be the grid of the CURRENT name and be defined by the current graph
                import itertools
                from c03 import flat_keys
                keys = list(flat_keys(x.__dask_keys__()))
                grid = [(x.name, *idx) for idx in itertools.product(*[range(n) for n in x.numblocks])]
                if keys != grid:
                    problems.append(("stale-keys", "__dask_keys__ is not the block grid of the collection's current name"))
                elif any(k not in x.__dask_graph__() for k in keys):
                    problems.append(("stale-keys", "the current graph does not define the advertised keys"))
                got = x.compute(scheduler="sync")
            if not same(got, mirror):
                problems.append(("target", "x does not equal the NumPy result of the same assignments"))
        except Exception as e:  # noqa: BLE001
            problems.append(("target-raises", f"x.compute() raises {type(e).__name__}: {str(e)[:80]}"))
        for coll, want, how in others:
            if coll is x:
                continue        # a "derivation" that returned x itself is x (see DESIGN F9)
            try:
                with warnings.catch_warnings():
                    warnings.simplefilter("ignore")
                    got = coll.compute(scheduler="sync")
                if not same(got, want):
                    problems.append(("other", f"a collection derived earlier by `{how}` changed its value"))
            except Exception as e:  # noqa: BLE001
                problems.append(("other-raises", f"a collection derived earlier by `{how}` now raises {type(e).__name__}"))
        if not np.array_equal(src, src0):
            problems.append(("source", "the source ndarray was modified"))
        for cls, msg in problems:
            chk.violation(msg, {"shape": shape, "chunks": chunks, "history": log[: step + 1]}, signature={"class": cls, "last_op": log[step].split(" ")[0]})
        if not problems:
            chk.traces_validated += 1

    for step in range(nsteps):
        op = rng.choice(["derive", "setitem", "setitem", "setitem", "ufunc-out", "compute", "keys"])
        if masked_mode and step == 0:
            op = "derive"        # a sibling taken before the first masked assignment
        chk.count("op:" + op)
        try:
            with warnings.catch_warnings():
                warnings.simplefilter("ignore")
                if op == "derive":
                    how = rng.choice(["x[::2]", "x.T", "x + 1", "x[...]", "x[0:]", "x.sum()", "x.rechunk(-1)"] if not masked_mode else ["x[::2]", "x.T", "x + 1", "x[0:]"])
                    coll = eval(how, {"x": x})
                    others.append((coll, eval(how, {"x": mirror.copy()}) if "rechunk" not in how else mirror.copy(), how))
                    if rng.random() < 0.5:
                        coll.compute(scheduler="sync")          # materialize the sibling before later assignments
                    log.append(f"derive {how}" + (" (is x)" if coll is x else ""))
                elif op == "setitem":
                    key, kind = rand_key(rng, shape)
                    while masked_mode and kind not in ("basic", "neg-step", "int"):
                        key, kind = rand_key(rng, shape)        # comparisons on masked data have their own semantics: keep the oracle simple
                    chk.count("key:" + kind)
                    vkind = rng.choice(["scalar", "array", "dask"])
                    if kind == "bool-np":
                        key = mirror > rng.randint(-6, 6)
                        vkind = "scalar"
                    elif kind == "bool-dask":
                        t = rng.randint(-6, 6)
                        key_np = mirror > t
                        key = x > t
                        vkind = "scalar"
                    val = rng.randint(-9, 9)
                    if masked_mode and kind in ("basic", "neg-step", "int") and rng.random() < 0.7:
                        tgt = np.ma.getdata(mirror)[key]
                        mv = np.ma.array(np.arange(tgt.size).reshape(tgt.shape) + 200, mask=(np.arange(tgt.size).reshape(tgt.shape) % 2 == 0)) \
                            if tgt.ndim else np.ma.masked
                        mirror[key] = mv
                        x[key] = mv
                        log.append(f"setitem key={kind} value=masked")
                        chk.count("value:masked")
                        check_all(step)
                        continue
                    if kind not in ("bool-np", "bool-dask") and vkind != "scalar":
                        tgt = mirror[key]
                        val_np = (np.arange(tgt.size).reshape(tgt.shape) + 100) if rng.random() < 0.7 or tgt.ndim == 0 else np.full(tgt.shape[-1:], 77)
                        val = da.from_array(val_np, chunks=-1) if vkind == "dask" and val_np.ndim else val_np
                        mirror[key] = val_np
                    elif kind == "bool-dask":
                        mirror[key_np] = val
                    else:
                        mirror[key] = val
                    x[key] = val
                    log.append(f"setitem key={kind} value={vkind}")
                elif op == "ufunc-out":
                    da.add(x, 1, out=x)
                    mirror += 1
                    log.append("ufunc-out add(x, 1, out=x)")
                elif op == "keys":
                    import dask
                    x.__dask_keys__()
                    if rng.random() < 0.5:
                        dask.compute(x, scheduler="sync")
                    log.append("keys (populate caches: __dask_keys__ / dask.compute)")
                else:
                    log.append("compute")
        except (NotImplementedError, ValueError, IndexError, TypeError) as e:
            # an unsupported key/value combination must raise *before* changing anything: re-sync the mirror is impossible, stop here
            log.append(f"{op} raised {type(e).__name__}")
            chk.count("unsupported:" + err_sig(e)[:28])
            return
        check_all(step)


def run(chk: Check):
    import dask_array as da
    chk.rule = ("histories of 3-8 steps on one target array: derivations taken before later assignments (slices, transposes, elemwise, "
                "reductions, and the identity-returning ones), assignments with basic / negative-step / integer / list / NumPy-bool / "
                "dask-bool / ellipsis keys and scalar / array / dask-array values, ufunc out=x, computes; after EVERY step the target is "
                "compared with the NumPy result of the same assignments, every other live collection with the value it had when derived "
                "(a derivation that returned the target object itself counts as the target), and the source ndarray with its original")
    chk.assumptions = ["collection identity is Python object identity: x[:] / x[...] / asarray(x) return x itself and therefore track it (DESIGN F9)"]
    chk.run_proofs()
    n = 4000 if chk.tier == "thorough" else 400
    for hid in range(n):
        run_history(chk, da, chk.rng, hid)


def replay(path):
    print(open(path).read())
