"""C14 — rechunking yields the requested chunks with unchanged values.

impl (dask_array._rechunk / _expr.ArrayExpr.rechunk / io._from_array) vs the Gallina model
(coq/theories/RechunkGraph.v, evaluated inside Coq) vs the property itself (NumPy values, an
independent merge of the spec + normalize_chunks, brute-force crosswalk oracle).

Families
  graph     _compute_rechunk / TasksRechunk._layer task-graph structure (1-D .. 3-D) == model;
            executing the real graph gives the blocks of the new layout
  helpers   _validate_rechunk (known + nan sizes), _balance_chunksizes, _get_chunks == model
  api       x.rechunk(spec, ...) and Rechunk(x, spec, ...).chunks == independent normalisation == model;
            values and per-block shapes of the computed graph
  programs  rechunk nodes at random positions inside programs (optimised vs unoptimised vs NumPy)
  unknown   rechunk of arrays with nan chunk sizes"""
from __future__ import annotations

import itertools
import json
import math
import warnings

import numpy as np

import progs
from common import Check, cbool, clist, cnat, copt, coq_eval_cases, coq_eval_expr, ctuple, cz
from c13 import compositions, rand_chunks
from c15 import check_crosswalk

HEADER = "From DA Require Import PyBase Rechunk NormChunks RechunkGraph.\nOpen Scope Z_scope.\n"

PROG_OPS = ["elem2", "elem1", "scalar", "T", "slice", "rechunk", "concat", "stack", "expand", "squeeze"]


def cchunks(cs):
    return clist(cs, lambda ax: clist(ax))


# --------------------------------------------------------------------------------------------
# reading a _compute_rechunk layer back into data
def parse_layer(layer, old_name, merge_name, split_name, new_chunks):
    """-> (merges, splits): merges in row-major new-block order, each ("alias", src) or
    ("concat", shape, [src...]); src = ("old", idx) | ("split", idx, k); splits in dict order
    (idx, k, [(a, b), ...]).  Raises ValueError on anything unexpected."""
    from dask._task_spec import Alias, List, Task, TaskRef

    import dask_array._rechunk as R

    def src_of(key):
        if key[0] == old_name:
            return ("old", tuple(key[1:]))
        if key[0] == split_name:
            return ("split", tuple(key[1:-1]), key[-1])
        raise ValueError(f"merge input {key!r} is neither an old block nor a split task")

    def nested(obj):
        if isinstance(obj, List):
            subs = [nested(a) for a in obj.args]
            shapes = {s for s, _ in subs}
            if len(shapes) != 1:
                raise ValueError("ragged concatenate3 argument")
            sh = shapes.pop()
            return (len(subs),) + sh, [x for _, fl in subs for x in fl]
        if isinstance(obj, TaskRef):
            return (), [src_of(obj.key)]
        raise ValueError(f"unexpected concatenate3 leaf {obj!r}")

    merges, splits = [], []
    seen = set()
    for idx in itertools.product(*[range(len(c)) for c in new_chunks]):
        key = (merge_name,) + idx
        if key not in layer:
            raise ValueError(f"missing merge key {key}")
        seen.add(key)
        t = layer[key]
        if isinstance(t, Alias):
            merges.append(("alias", src_of(t.target)))
        elif isinstance(t, Task) and t.func is R.concatenate3:
            sh, flat = nested(t.args[0])
            merges.append(("concat", sh, flat))
        else:
            raise ValueError(f"unexpected merge task {t!r}")
    for key, t in layer.items():
        if key in seen:
            continue
        if key[0] != split_name or not isinstance(t, Task) or t.func is not R.chunk_getitem:
            raise ValueError(f"unexpected task {key!r}: {t!r}")
        ref, slices = t.args
        if tuple(ref.key[1:]) != tuple(key[1:-1]) or ref.key[0] != old_name:
            raise ValueError(f"split key {key} reads {ref.key}")
        if any(s.step is not None for s in slices):
            raise ValueError("stepped slice in split task")
        splits.append((tuple(key[1:-1]), key[-1], [(s.start, s.stop) for s in slices]))
    return merges, splits


def csrc1(s):
    return f"(SrcOld {cz(s[1][0])})" if s[0] == "old" else f"(SrcSplit {cz(s[1][0])} {cz(s[2])})"


def csrcN(s):
    return f"(NSrcOld {clist(s[1])})" if s[0] == "old" else f"(NSrcSplit {clist(s[1])} {cz(s[2])})"


def cgraph1(merges, splits):
    ms = clist(merges, lambda m: f"(MAlias {csrc1(m[1])})" if m[0] == "alias" else f"(MConcat {clist(m[2], csrc1)})")
    ss = clist(splits, lambda t: ctuple(cz(t[0][0]), cz(t[1]), cz(t[2][0][0]), cz(t[2][0][1])))
    return f"(Some ({ms}, {ss}))"


def cgraphN(merges, splits):
    ms = clist(merges, lambda m: f"(NAlias {csrcN(m[1])})" if m[0] == "alias"
               else f"(NConcat {clist(m[1], cnat)} {clist(m[2], csrcN)})")
    ss = clist(splits, lambda t: ctuple(clist(t[0]), cz(t[1]), clist(t[2], lambda p: ctuple(cz(p[0]), cz(p[1])))))
    return f"(Some ({ms}, {ss}))"


def offsets(cs):
    out = [0]
    for c in cs:
        out.append(out[-1] + c)
    return out


def old_blocks_dsk(name, data, chunks):
    offs = [offsets(c) for c in chunks]
    dsk = {}
    for idx in itertools.product(*[range(len(c)) for c in chunks]):
        sl = tuple(slice(o[i], o[i + 1]) for o, i in zip(offs, idx))
        dsk[(name,) + idx] = data[sl]
    return dsk


def run_layer(layer, old_name, data, old, merge_name, new):
    """execute the real layer on NumPy blocks; returns a problem string or None"""
    from dask.local import get_sync
    dsk = old_blocks_dsk(old_name, data, old)
    dsk.update(layer)
    offs = [offsets(c) for c in new]
    idxs = list(itertools.product(*[range(len(c)) for c in new]))
    got = get_sync(dsk, [(merge_name,) + i for i in idxs])
    for idx, g in zip(idxs, got):
        sl = tuple(slice(o[i], o[i + 1]) for o, i in zip(offs, idx))
        want = data[sl]
        g = np.asarray(g)
        if g.shape != want.shape:
            return f"new block {idx} has shape {g.shape}, advertised {want.shape}"
        if not np.array_equal(g, want):
            return f"new block {idx} has wrong values"
    return None


# --------------------------------------------------------------------------------------------
def gen_pair(rng, n, zero=0.15):
    def one():
        cs = list(rand_chunks(rng, n))
        while rng.random() < zero:
            cs.insert(rng.randrange(len(cs) + 1), 0)
        return tuple(cs)
    return one(), one()


def fam_graph(chk, R, tier):
    rng = chk.rng
    thorough = tier == "thorough"
    # ---------------- 1-D
    inputs = []
    # corpus: zero-size chunks in both layouts (old blocks skipped, trailing empty new blocks)
    inputs += [((2, 0, 2, 6), (4, 0, 3, 3, 0)), ((0,), (0, 0)), ((0, 0), (0,)), ((3, 3, 4), (3, 7)), ((5,), (5,)), ((0, 5, 0), (0, 0, 5))]
    for n in range(1, (7 if thorough else 5) + 1):
        comps = list(compositions(n))
        for o in comps:
            for nw in comps:
                inputs.append((o, nw))
    for n in range(0, 4):          # all layouts with zero-size chunks, at most 3 / 4 blocks
        lay = [c for k in range(1, 4 if not thorough else 5) for c in itertools.product(range(n + 1), repeat=k) if sum(c) == n]
        for o in lay:
            for nw in lay:
                inputs.append((o, nw))
    for _ in range(6000 if thorough else 500):
        n = rng.choice([1, 2, 3, 5, 8, 13, 30, 60])
        inputs.append(gen_pair(rng, n))
    cases, kept = [], []
    for o, nw in inputs:
        chk.count("graph1d:" + ("zero" if 0 in o or 0 in nw else "pos"))
        try:
            merge_name, _, layer = R._compute_rechunk("x", (o,), (nw,), 0, "rechunk-merge-T")
            merges, splits = parse_layer(layer, "x", merge_name, "rechunk-split-T", (nw,))
            err = None
        except Exception as e:  # noqa: BLE001
            merges = splits = None
            err = type(e).__name__ + ": " + str(e)[:120]
        chk.case(("g1", o, nw), nontrivial=(o != nw), sample={"fn": "_compute_rechunk", "old": o, "new": nw,
                                                               "merges": merges, "splits": splits, "error": err})
        if err:
            chk.violation("_compute_rechunk raised on valid layouts: " + err, {"fn": "_compute_rechunk", "old": [o], "new": [nw]},
                          signature={"fn": "_compute_rechunk", "class": "raises", "error": err.split(":")[0]})
            cases.append(ctuple(clist(o), clist(nw), "None"))
            kept.append((o, nw, None))
            continue
        # property: the pieces of every new block tile it exactly (independent oracle of C15) ...
        sp = {(t[0], t[1]): t[2][0] for t in splits}
        cw = []
        for m in merges:
            srcs = [m[1]] if m[0] == "alias" else m[2]
            cw.append([(s[1][0], slice(0, o[s[1][0]])) if s[0] == "old" else (s[1][0], slice(*sp[(s[1], s[2])])) for s in srcs])
        bad = check_crosswalk(o, nw, cw)
        # ... an alias is used exactly for single-source blocks, and no split task copies a whole block
        if not bad:
            for j, m in enumerate(merges):
                if (m[0] == "alias") != (len(cw[j]) == 1):
                    bad = f"new block {j}: alias/concatenate choice does not match its {len(cw[j])} sources"
            for t in splits:
                if t[2][0] == (0, o[t[0][0]]):
                    bad = f"split task {t} copies a whole old block"
        # ... and executing it gives the blocks of the new layout
        if not bad:
            data = np.arange(sum(o), dtype="int64") * 3 + 1
            bad = run_layer(layer, "x", data, (o,), merge_name, (nw,))
        if bad:
            chk.violation("rechunk graph: " + bad, {"fn": "_compute_rechunk", "old": [o], "new": [nw], "merges": merges, "splits": splits},
                          signature={"fn": "_compute_rechunk", "class": "wrong-graph", "zero_size_chunks": 0 in o or 0 in nw})
        cases.append(ctuple(clist(o), clist(nw), cgraph1(merges, splits)))
        kept.append((o, nw, (merges, splits)))
    mism, _ = coq_eval_cases(
        HEADER, "list Z * list Z * option (list mtask * list stask)",
        "Definition chk (c : list Z * list Z * option (list mtask * list stask)) : bool := let '(o, n, g) := c in\n"
        "  graph1_eqb (compute_rechunk_1d o n) g && graphN_eqb (compute_rechunk_nd [o] [n]) (graph1_as_nd g) && cw_sorted (intersect_1d o n).",
        cases)
    for i in mism[:5]:
        o, nw, g = kept[i]
        model = coq_eval_expr(HEADER, [f"compute_rechunk_1d {clist(o)} {clist(nw)}"])[0]
        chk.tie_break("correspondence:_compute_rechunk (1-D)", {"old": o, "new": nw, "impl": g, "model": model})
    chk.traces_validated += len(cases) - len(mism)

    # ---------------- N-D (rank 2 and 3) through _compute_rechunk
    inputs = [(((2, 1), (1, 3)), ((1, 2), (2, 2))), (((2, 0, 2), (3,)), ((4, 0), (1, 0, 2))), (((0,), (0,)), ((0, 0), (0,)))]
    small = [c for n in (1, 2, 3) for c in compositions(n)] + [(2, 0), (0, 3), (1, 0, 1)]
    if thorough:
        for o0, n0, o1, n1 in itertools.product(small, repeat=4):
            if sum(o0) == sum(n0) and sum(o1) == sum(n1):
                inputs.append(((o0, o1), (n0, n1)))
    for _ in range(3000 if thorough else 500):
        rank = rng.choice([2, 2, 2, 3])
        old, new = [], []
        for _ in range(rank):
            n = rng.choice([1, 2, 3, 4, 6, 9] if rank == 2 else [1, 2, 3, 5])
            o, nw = gen_pair(rng, n, zero=0.08)
            old.append(o)
            new.append(nw)
        inputs.append((tuple(old), tuple(new)))
    cases, kept = [], []
    for old, new in inputs:
        chk.count(f"graph{len(old)}d:" + ("zero" if any(0 in c for c in old + new) else "pos"))
        try:
            merge_name, _, layer = R._compute_rechunk("x", old, new, 0, "rechunk-merge-T")
            merges, splits = parse_layer(layer, "x", merge_name, "rechunk-split-T", new)
            err = None
        except Exception as e:  # noqa: BLE001
            merges = splits = None
            err = type(e).__name__ + ": " + str(e)[:120]
        chk.case(("gN", old, new), nontrivial=(old != new),
                 sample={"fn": "_compute_rechunk", "old": old, "new": new, "n_merges": len(merges or []), "n_splits": len(splits or []), "error": err})
        if err:
            chk.violation("_compute_rechunk raised on valid layouts: " + err, {"fn": "_compute_rechunk", "old": old, "new": new},
                          signature={"fn": "_compute_rechunk", "class": "raises", "error": err.split(":")[0]})
            continue
        shape = tuple(sum(c) for c in old)
        data = (np.arange(int(np.prod(shape)), dtype="int64").reshape(shape) * 7 + 2) % 101
        bad = run_layer(layer, "x", data, old, merge_name, new)
        if bad:
            chk.violation("rechunk graph: " + bad, {"fn": "_compute_rechunk", "old": old, "new": new},
                          signature={"fn": "_compute_rechunk", "class": "wrong-graph", "zero_size_chunks": any(0 in c for c in old + new)})
        cases.append(ctuple(cchunks(old), cchunks(new), cgraphN(merges, splits)))
        kept.append((old, new, (merges, splits)))
    mism, _ = coq_eval_cases(
        HEADER, "chunksN * chunksN * option (list ndmtask * list ndstask)",
        "Definition chk (c : chunksN * chunksN * option (list ndmtask * list ndstask)) : bool := let '(o, n, g) := c in\n"
        "  graphN_eqb (compute_rechunk_nd o n) g.",
        cases, chunk=150)
    for i in mism[:5]:
        old, new, g = kept[i]
        model = coq_eval_expr(HEADER, [f"compute_rechunk_nd {cchunks(old)} {cchunks(new)}"])[0]
        chk.tie_break("correspondence:_compute_rechunk (N-D)", {"old": old, "new": new, "impl": g, "model": model})
    chk.traces_validated += len(cases) - len(mism)


def fam_layer(chk, da, R, tier):
    """TasksRechunk._layer on real arrays, incl. multi-step plans: every step's sub-layer is the
    model's graph for (previous step, step); the whole layer computes the new blocks."""
    import dask
    rng = chk.rng
    cases, kept = [], []
    for it in range(1500 if tier == "thorough" else 250):
        rank = rng.choice([1, 1, 2, 2, 3])
        old, new = [], []
        for _ in range(rank):
            n = rng.choice([2, 3, 4, 6, 8, 12] if rank < 3 else [2, 3, 4])
            style = rng.random()
            if style < 0.3:
                old.append((1,) * n)
                new.append((n,))
            elif style < 0.6:
                old.append((n,))
                new.append((1,) * n)
            else:
                o, nw = gen_pair(rng, n, zero=0.05)
                old.append(o)
                new.append(nw)
        old, new = tuple(old), tuple(new)
        if old == new:
            continue
        shape = tuple(sum(c) for c in old)
        data = (np.arange(int(np.prod(shape)), dtype="int64").reshape(shape) * 5 + 3) % 97
        threshold = rng.choice([None, 1, 2, 4])
        bsl = rng.choice([None, 8, 64, 10 ** 6])
        degree = rng.choice([2, 3, 100])
        x = da.from_array(data, chunks=old)
        zero = any(0 in c for c in old + new)
        with dask.config.set({"array.rechunk.degree-limit": degree}):
            try:
                steps = R.plan_rechunk(old, new, data.dtype.itemsize, threshold, bsl)
            except Exception:  # noqa: BLE001  (the planner is C15's subject: known finding F22 with zero-size chunks)
                chk.count("layer:plan_rechunk-raises" + (":zero" if zero else ""))
                continue
            try:
                node = R.TasksRechunk(x.expr, new, threshold, bsl)
                layer = node._layer()
                err = None
            except Exception as e:  # noqa: BLE001
                err = type(e).__name__ + ": " + str(e)[:100]
        chk.count(f"layer:rank{rank}:steps{0 if err else min(len(steps), 3)}")
        chk.case(("layer", old, new, threshold, bsl, degree), nontrivial=not err and len(steps) > 1,
                 sample={"fn": "TasksRechunk._layer", "old": old, "new": new, "threshold": threshold, "block_size_limit": bsl,
                         "degree_limit": degree, "steps": None if err else steps})
        if err:
            chk.violation("TasksRechunk._layer raised: " + err, {"fn": "TasksRechunk._layer", "old": old, "new": new, "threshold": threshold,
                                                                 "block_size_limit": bsl, "degree_limit": degree},
                          signature={"fn": "TasksRechunk._layer", "class": "raises", "zero_size_chunks": zero, "error": err.split(":")[0]})
            continue
        name = node.name
        prev_name, prev = x.expr.name, old
        try:
            for i, st in enumerate(steps):
                level = len(steps) - i - 1
                if level != 0:
                    mname = name.replace("rechunk-merge-", f"rechunk-merge-{level}-")
                    sname = name.replace("rechunk-merge-", f"rechunk-split-{level}-")
                else:
                    mname, sname = name, name.replace("rechunk-merge-", "rechunk-split-")
                sub = {k: v for k, v in layer.items() if k[0] in (mname, sname)}
                merges, splits = parse_layer(sub, prev_name, mname, sname, st)
                cases.append(ctuple(cchunks(prev), cchunks(st), cgraphN(merges, splits)))
                kept.append((prev, st, (merges, splits)))
                prev_name, prev = mname, st
            if sum(1 for k in layer) != sum(1 for k in layer if k[0].startswith(("rechunk-merge-", "rechunk-split-"))):
                raise ValueError("foreign keys in the layer")
            bad = run_layer(layer, x.expr.name, data, old, name, new)
        except ValueError as e:
            bad = str(e)
        if bad:
            chk.violation("TasksRechunk._layer: " + bad, {"fn": "TasksRechunk._layer", "old": old, "new": new, "threshold": threshold,
                                                          "block_size_limit": bsl, "degree_limit": degree, "steps": steps},
                          signature={"fn": "TasksRechunk._layer", "class": "wrong-graph", "zero_size_chunks": zero})
    mism, _ = coq_eval_cases(
        HEADER, "chunksN * chunksN * option (list ndmtask * list ndstask)",
        "Definition chk (c : chunksN * chunksN * option (list ndmtask * list ndstask)) : bool := let '(o, n, g) := c in\n"
        "  graphN_eqb (compute_rechunk_nd o n) g.",
        cases, chunk=150)
    for i in mism[:5]:
        old, new, g = kept[i]
        model = coq_eval_expr(HEADER, [f"compute_rechunk_nd {cchunks(old)} {cchunks(new)}"])[0]
        chk.tie_break("correspondence:TasksRechunk._layer step", {"old": old, "new": new, "impl": g, "model": model})
    chk.traces_validated += len(cases) - len(mism)


# --------------------------------------------------------------------------------------------
def copt_list(dim):
    return clist(dim, lambda c: "None" if (isinstance(c, float) and math.isnan(c)) else f"(Some {cz(c)})")


def fam_helpers(chk, R, tier):
    rng = chk.rng
    nan = float("nan")
    # ---- _validate_rechunk
    cases, kept = [], []
    for _ in range(4000 if tier == "thorough" else 500):
        rank = rng.choice([1, 2, 2, 3])
        old, new = [], []
        for _ in range(rank):
            n = rng.choice([0, 1, 2, 3, 5, 8])
            o = list(rand_chunks(rng, n, allow_zero=True))
            r = rng.random()
            if r < 0.45:
                nw = list(rand_chunks(rng, n, allow_zero=True))
            elif r < 0.6:
                nw = list(rand_chunks(rng, max(0, n + rng.choice([-1, 1])), allow_zero=True))
            else:
                nw = list(o)
            if rng.random() < 0.3:      # unknown sizes
                k = rng.randrange(len(o))
                o[k] = nan
                r2 = rng.random()
                if r2 < 0.5:
                    nw = list(o)
                elif r2 < 0.7 and len(nw) > 0:
                    nw[rng.randrange(len(nw))] = nan
            old.append(tuple(o))
            new.append(tuple(nw))
        if rng.random() < 0.05:
            new = new[:-1] if len(new) > 1 else new + [(1,)]
        old, new = tuple(old), tuple(new)
        try:
            R._validate_rechunk(old, new)
            ok = True
        except (ValueError, AssertionError):
            ok = False
        unknown = any(isinstance(c, float) for d in old + new for c in d)
        chk.count("validate:" + ("nan" if unknown else "known") + (":accepts" if ok else ":raises"))
        chk.case(("validate", repr(old), repr(new)), nontrivial=unknown or not ok,
                 sample={"fn": "_validate_rechunk", "old": repr(old), "new": repr(new), "accepts": ok})
        # property (known sizes): accepted iff same rank and same extents
        if not unknown:
            want = len(old) == len(new) and all(sum(a) == sum(b) for a, b in zip(old, new))
            if want != ok:
                chk.violation("_validate_rechunk accepts iff the shapes agree", {"fn": "_validate_rechunk", "old": old, "new": new, "accepts": ok},
                              signature={"fn": "_validate_rechunk", "class": "known-sizes"})
        elif ok:
            # an unknown axis must be unchanged
            for a, b in zip(old, new):
                if any(isinstance(c, float) for c in a) and repr(a) != repr(b):
                    chk.violation("_validate_rechunk accepted a change along an axis of unknown size",
                                  {"fn": "_validate_rechunk", "old": repr(old), "new": repr(new)}, signature={"fn": "_validate_rechunk", "class": "nan-sizes"})
        cases.append(ctuple(clist(old, copt_list), clist(new, copt_list), cbool(ok)))
        kept.append((old, new, ok))
    mism, _ = coq_eval_cases(
        HEADER, "list (list (option Z)) * list (list (option Z)) * bool",
        "Definition chk (c : list (list (option Z)) * list (list (option Z)) * bool) : bool := let '(o, n, b) := c in\n"
        "  Bool.eqb (validate_rechunk o n) b.", cases)
    for i in mism[:5]:
        chk.tie_break("correspondence:_validate_rechunk", {"old": repr(kept[i][0]), "new": repr(kept[i][1]), "impl_accepts": kept[i][2]})
    chk.traces_validated += len(cases) - len(mism)

    # ---- _balance_chunksizes / _get_chunks
    cases, kept = [], []
    inputs = [(4, 4, 2), (3, 3, 3, 1), (10,), (1, 1), (0, 5), (5, 0, 5), (7, 7, 7, 7, 1), (100, 100, 100, 3)]
    for n in range(1, 8 if tier == "thorough" else 6):
        inputs += list(compositions(n))
    for _ in range(4000 if tier == "thorough" else 450):
        r = rng.random()
        if r < 0.5:
            c = rng.randint(1, 40)
            n = rng.randint(1, 300)
            inputs.append(tuple([c] * (n // c) + ([n % c] if n % c else [])) or (n,))
        else:
            inputs.append(rand_chunks(rng, rng.choice([1, 2, 5, 13, 60, 200]), allow_zero=rng.random() < 0.3))
    for cs in inputs:
        with warnings.catch_warnings():
            warnings.simplefilter("ignore")
            try:
                out = tuple(int(c) for c in R._balance_chunksizes(cs))
                err = None
            except Exception as e:  # noqa: BLE001
                out, err = None, type(e).__name__
        med = int(np.median(cs).astype(int))
        chk.count("balance:" + ("changed" if out is not None and out != cs else "same" if out is not None else "raises"))
        chk.case(("balance", cs), nontrivial=out is not None and out != cs, sample={"fn": "_balance_chunksizes", "chunks": cs, "impl": out or err})
        if out is not None and (sum(out) != sum(cs) or not out or any(c < 0 for c in out) or (min(cs) > 0 and min(out) <= 0)):
            chk.violation("_balance_chunksizes result is not a layout of the same axis", {"fn": "_balance_chunksizes", "chunks": cs, "impl": out},
                          signature={"fn": "_balance_chunksizes", "class": "invalid-layout"})
        if err:
            chk.violation("_balance_chunksizes raised " + err, {"fn": "_balance_chunksizes", "chunks": cs}, signature={"fn": "_balance_chunksizes", "class": "raises"})
        cases.append(ctuple(cz(med), clist(cs), "(Ok " + clist(out) + ")" if out is not None else "(Err EValue)"))
        kept.append((cs, med, out))
    for _ in range(300):
        n, c = rng.randint(0, 200), rng.randint(1, 50)
        out = tuple(R._get_chunks(n, c))
        cases.append(ctuple(cz(-1 - c), clist((n,)), "(Ok " + clist(out) + ")"))   # encoded: median < 0 selects the _get_chunks check
        kept.append(((n,), -1 - c, out))
        chk.count("get_chunks")
        chk.case(("get_chunks", n, c), nontrivial=True)
        if sum(out) != n or any(x <= 0 for x in out):
            chk.violation("_get_chunks is not a layout", {"fn": "_get_chunks", "n": n, "chunksize": c, "impl": out}, signature={"fn": "_get_chunks"})
    mism, _ = coq_eval_cases(
        HEADER, "Z * list Z * res (list Z)",
        "Definition chk (c : Z * list Z * res (list Z)) : bool := let '(m, cs, o) := c in\n"
        "  if m <? 0 then res_list_eqb (get_chunks (hd 0 cs) (- m - 1)) o else res_list_eqb (balance_chunksizes m cs) o.", cases)
    for i in mism[:5]:
        chk.tie_break("correspondence:_balance_chunksizes/_get_chunks", {"chunks": kept[i][0], "median_or_code": kept[i][1], "impl": kept[i][2]})
    chk.traces_validated += len(cases) - len(mism)


# --------------------------------------------------------------------------------------------
# x.rechunk(spec, ...)
BYTE_STRINGS = ["8B", "16B", "64B", "1kiB", "100 B"]


def gen_axis_entry(rng, n, old_c, allow_none=True):
    r = rng.random()
    if r < 0.22:
        return rng.randint(1, max(n, 1) + 2)
    if r < 0.42:
        return rand_chunks(rng, n, allow_zero=rng.random() < 0.15)
    if r < 0.52:
        return -1
    if r < 0.62 and allow_none:
        return None
    if r < 0.74:
        return "auto"
    if r < 0.80:
        return rng.choice(BYTE_STRINGS)
    if r < 0.86:
        return old_c
    if r < 0.93:
        return max(n, 1)
    # malformed: zero / negative / wrong sum / empty
    k = rng.random()
    if k < 0.3:
        return rng.choice([0, -2, -n - 1])
    if k < 0.7 and n > 0:
        cs = list(rand_chunks(rng, n))
        cs[rng.randrange(len(cs))] += rng.choice([-1, 1])
        return tuple(cs)
    return ()


def gen_api_case(rng):
    rank = rng.choice([1, 1, 2, 2, 3])
    dims = [0, 1, 2, 3, 4, 5, 7, 10, 16] if rank < 3 else [0, 1, 2, 3, 4, 5]
    shape = tuple(rng.choice(dims[1:] if rng.random() < 0.85 else dims) for _ in range(rank))
    old = tuple(rand_chunks(rng, n, allow_zero=rng.random() < 0.12) for n in shape)
    r = rng.random()
    if r < 0.12:
        spec = rng.choice([rng.randint(1, max(shape) + 1), -1, "auto", rng.choice(BYTE_STRINGS), 0, -2])
    elif r < 0.40:
        axes = rng.sample(range(rank), rng.randint(0, rank))
        spec = {}
        for a in axes:
            key = a - rank if rng.random() < 0.25 else a
            spec[key] = gen_axis_entry(rng, shape[a], old[a])
        if rng.random() < 0.04:
            spec[rank if rng.random() < 0.5 else -rank - 1] = 1          # AxisError
    else:
        spec = [gen_axis_entry(rng, n, c) for n, c in zip(shape, old)]
        q = rng.random()
        if q < 0.04:
            spec = spec[:-1]                                              # too short
        elif q < 0.10:
            spec = spec + [rng.choice([1, 2, 3, -1, None, shape[0] + 1])]  # too long (finding F24)
        spec = tuple(spec) if rng.random() < 0.8 else list(spec)
    kw = {}
    if rng.random() < 0.3:
        kw["block_size_limit"] = rng.choice([8, 16, 64, 1024, 10 ** 6])
    if rng.random() < 0.2:
        kw["balance"] = True
    if rng.random() < 0.2:
        kw["threshold"] = rng.choice([1, 2, 4, 32])
    if rng.random() < 0.3:
        kw["method"] = "tasks"
    dtype = rng.choice(["int64", "int64", "int32", "float64", "uint8"])
    return shape, old, spec, kw, dtype


def parse_bytes_str(s):
    from dask.utils import parse_bytes
    return parse_bytes(s)


def independent_chunks(spec, shape, old, dtype, bsl):
    """The chunks the API documents: dict -> listed axes (negative keys count from the end), the rest
    unchanged; None inside a tuple -> unchanged; then normalize_chunks(...) against x.  Written
    independently of Rechunk.chunks; raises what normalize_chunks raises."""
    from dask_array._core_utils import normalize_chunks
    ndim = len(shape)
    if isinstance(spec, dict):
        merged = list(old)
        for k, v in spec.items():
            if not -ndim <= k < ndim:
                raise ValueError(f"axis {k} out of bounds")
            merged[k % ndim] = old[k % ndim] if v is None else v
        merged = tuple(merged)
    elif isinstance(spec, (tuple, list)):
        merged = tuple(old[i] if (v is None and i < ndim) else v for i, v in enumerate(spec))
    else:
        merged = spec
    return normalize_chunks(merged, shape, limit=bsl, dtype=np.dtype(dtype), previous_chunks=old)


def cuaxis(v):
    if v is None:
        return "UNone"
    if isinstance(v, str):
        return "UAuto" if v == "auto" else f"(UBytes {cz(parse_bytes_str(v))})"
    if isinstance(v, (tuple, list)):
        return f"(UTuple {clist(v)})"
    return f"(UInt {cz(v)})"


def cuspec(spec):
    if isinstance(spec, dict):
        return "(SDict " + clist(list(spec.items()), lambda kv: ctuple(cz(kv[0]), cuaxis(kv[1]))) + ")"
    if isinstance(spec, (tuple, list)):
        return "(STuple " + clist(spec, cuaxis) + ")"
    return f"(SScalar {cuaxis(spec)})"


def caspec(v):
    if isinstance(v, str):
        return "AAuto"
    if isinstance(v, (tuple, list)):
        return f"(ATuple {clist([int(c) for c in v])})"
    return f"(AInt {cz(int(v))})"


class AutoRecorder:
    """records what auto_chunks returns (the float-driven previous_chunks branch is an oracle of the model)"""

    def __init__(self):
        import dask_array._core_utils as CU
        self.CU = CU
        self.calls = []

    def __enter__(self):
        orig = self.CU.auto_chunks
        self.orig = orig
        rec = self

        def wrapper(chunks, shape, limit, dtype, previous_chunks=None):
            try:
                out = orig(chunks, shape, limit, dtype, previous_chunks)
            except Exception:
                rec.calls.append(None)
                raise
            rec.calls.append(tuple(out))
            return out
        self.CU.auto_chunks = wrapper
        return self

    def __exit__(self, *a):
        self.CU.auto_chunks = self.orig


class Hang(BaseException):
    pass


class time_limit:
    """turns a non-terminating call into an exception (SIGALRM; main thread only)"""

    def __init__(self, seconds):
        self.seconds = seconds

    def __enter__(self):
        import signal

        def handler(signum, frame):
            raise Hang()
        self.old = signal.signal(signal.SIGALRM, handler)
        signal.setitimer(signal.ITIMER_REAL, self.seconds)

    def __exit__(self, *a):
        import signal
        signal.setitimer(signal.ITIMER_REAL, 0)
        signal.signal(signal.SIGALRM, self.old)


def err_class(e):
    if isinstance(e, ZeroDivisionError):
        return "ZeroDivisionError"
    if isinstance(e, (ValueError, AssertionError)):      # AxisError is a ValueError
        return "ValueError"
    return type(e).__name__


def compute_blocks(arr):
    """every block of the computed (optimised) graph, keyed by block index"""
    from dask.local import get_sync
    dsk = dict(arr.__dask_graph__())
    keys = arr.__dask_keys__()

    def flat(k):
        if isinstance(k, list):
            for x in k:
                yield from flat(x)
        else:
            yield k
    ks = list(flat(keys))
    vals = get_sync(dsk, ks) if ks else []
    return {tuple(k[1:]): np.asarray(v) for k, v in zip(ks, vals)}


def check_blocks(arr, want):
    """block shapes == advertised chunks; assembled values == want.  Returns problem or None."""
    chunks = arr.chunks
    blocks = compute_blocks(arr)
    offs = [offsets(c) for c in chunks]
    idxs = list(itertools.product(*[range(len(c)) for c in chunks]))
    if set(blocks) != set(idxs):
        return f"graph produces block keys {sorted(blocks)[:4]}.. but the chunks advertise {len(idxs)} blocks"
    for idx in idxs:
        sl = tuple(slice(o[i], o[i + 1]) for o, i in zip(offs, idx))
        exp_shape = tuple(c[i] for c, i in zip(chunks, idx))
        b = blocks[idx]
        if tuple(b.shape) != exp_shape:
            return f"block {idx} has shape {tuple(b.shape)}, advertised {exp_shape}"
        if not np.array_equal(b, np.asarray(want)[sl]):
            return f"block {idx} has wrong values"
    return None


def norm_kw(kw):
    return {k: kw[k] for k in sorted(kw)}


def fam_api(chk, da, R, tier):
    rng = chk.rng
    inputs = []
    # corpus first: finding F24 (tuple longer than ndim silently truncated)
    inputs.append(((5,), ((5,),), (2, 3), {}, "int64"))
    inputs.append(((4, 6), ((2, 2), (3, 3)), (1, 2, 4), {}, "int64"))
    # finding F26: a negative explicit entry next to two "auto" axes makes auto_chunks(previous_chunks=...) loop forever
    inputs.append(((5, 5, 2), ((1, 1, 1, 1, 1), (5,), (2,)), (-2, "auto", "auto"), {}, "int32"))
    inputs += [((4, 6), ((2, 2), (3, 3)), {-1: 2}, {}, "int64"),
               ((4, 6), ((2, 2), (3, 3)), (None, 4), {}, "int64"),
               ((4, 6), ((2, 2), (3, 3)), "16B", {}, "int64"),
               ((4, 6), ((2, 2), (3, 3)), ("auto", -1), {"block_size_limit": 64}, "int64"),
               ((10,), ((10,),), 4, {"balance": True}, "int64"),
               ((4, 6), ((2, 2), (3, 3)), ((4, 0), (0, 6)), {}, "int64"),
               ((0, 3), ((0,), (3,)), (), {}, "int64"),
               ((0, 0), ((0,), (0,)), (), {}, "int64"),
               ((4, 6), ((2, 2), (3, 3)), {0: "16B", 1: "64B"}, {}, "int64"),
               ((4, 6), ((2, 2), (3, 3)), {-1: 2, 1: 3}, {}, "int64"),            # both keys name axis 1: the later item wins
               ((4, 6), ((2, 2), (3, 3)), {1: 3, -1: 2}, {}, "int64"),
               ((4, 6), ((2, 2), (3, 3)), {-1: None, 1: 3}, {}, "int64"),
               ((4, 6), ((2, 2), (3, 3)), None, {}, "int64"),
               ((4, 6), ((2, 2), (3, 3)), "16B", {"block_size_limit": 16}, "int64"),
               ((4, 6), ((2, 2), (3, 3)), "16B", {"block_size_limit": 64}, "int64"),
               ((4, 6), ((2, 2), (3, 3)), ("16B", 2), {"block_size_limit": 16}, "int64"),
               ((4, 6), ((2, 0, 2), (3, 3)), {0: -1}, {}, "int64"),
               ((4, 6), ((2, 0, 2), (3, 3)), 3, {"balance": True}, "int64"),
               ((1, 1), ((1,), (1,)), (1, 1), {"balance": True}, "float64")]
    # exhaustive small: 1-D and 2-D int / -1 / None / dict specs
    for n in range(0, 6):
        for o in ([c for c in compositions(n)] if n else [(0,)])[: 6 if tier == "quick" else 40]:
            for c in [1, 2, n, n + 1, -1]:
                inputs.append(((n,), (o,), c, {}, "int64"))
                inputs.append(((n,), (o,), {0: c}, {}, "int64"))
    for _ in range(6000 if tier == "thorough" else 700):
        inputs.append(gen_api_case(rng))
    cases, kept = [], []
    for shape, old, spec, kw, dtype in inputs:
        data = ((np.arange(int(np.prod(shape)), dtype="int64").reshape(shape) * 7 + 3) % 23 - 5).astype(dtype)
        x = da.from_array(data, chunks=old)
        if x.chunks != old:
            continue
        bsl = kw.get("block_size_limit")
        balance = bool(kw.get("balance"))
        # implementation, through the public API and through the expression directly
        with warnings.catch_warnings(), AutoRecorder() as rec:
            warnings.simplefilter("ignore")
            try:
                with time_limit(5):
                    y = x.rechunk(spec, **kw)
                    got, err = y.chunks, None
            except Hang:
                chk.count("api:hangs")
                chk.case(("api-hang", shape, old, repr(spec), repr(norm_kw(kw)), dtype), nontrivial=True)
                chk.violation("x.rechunk(spec) does not terminate (auto_chunks with previous_chunks loops forever)",
                              {"fn": "rechunk", "shape": shape, "old_chunks": old, "spec": repr(spec), "kwargs": norm_kw(kw), "dtype": dtype},
                              signature={"fn": "rechunk", "class": "hangs"})
                continue
            except Exception as e:  # noqa: BLE001
                y, got, err = None, None, err_class(e)
        auto_api = rec.calls[0] if rec.calls else "unused"
        with warnings.catch_warnings(), AutoRecorder() as rec2:
            warnings.simplefilter("ignore")
            try:
                with time_limit(5):
                    got2 = R.Rechunk(x.expr, spec, kw.get("threshold"), bsl, balance, kw.get("method")).chunks
                err2 = None
            except Hang:
                # x.rechunk(spec) returned but the expression's own chunk rule does not: the two disagree (reported just below)
                got2, err2 = None, "hangs"
                chk.count("api:Rechunk.chunks-hangs")
            except Exception as e:  # noqa: BLE001
                got2, err2 = None, err_class(e)
        # independent expectation
        with warnings.catch_warnings():
            warnings.simplefilter("ignore")
            try:
                with time_limit(5):
                    want, werr = independent_chunks(spec, shape, old, dtype, bsl), None
            except Hang:
                want, werr = None, "hangs"
            except Exception as e:  # noqa: BLE001
                want, werr = None, err_class(e)
        kind = "dict" if isinstance(spec, dict) else "seq" if isinstance(spec, (tuple, list)) else "scalar"
        has_auto = "auto" in repr(spec) or "B'" in repr(spec)
        long_tuple = isinstance(spec, (tuple, list)) and len(spec) > len(shape)
        chk.count(f"api:{kind}:rank{len(shape)}" + (":auto" if has_auto else "") + (":balance" if balance else "") + (":raises" if err else ""))
        desc = {"fn": "rechunk", "shape": shape, "old_chunks": old, "spec": repr(spec), "kwargs": norm_kw(kw), "dtype": dtype,
                "impl": got if err is None else err, "expected": want if werr is None else werr}
        chk.case(("api", shape, old, repr(spec), repr(norm_kw(kw)), dtype), nontrivial=(err is None and got != old), sample=desc)
        sig = {"fn": "rechunk", "spec_kind": kind, "tuple_longer_than_ndim": long_tuple}
        if (err is None) != (err2 is None) or (err is None and got != got2):
            chk.violation("x.rechunk(spec).chunks differs from Rechunk(x, spec).chunks", {**desc, "Rechunk.chunks": got2 if err2 is None else err2},
                          signature={**sig, "class": "api-vs-expression"})
        if not balance:
            if (err is None) != (werr is None):
                chk.violation("rechunk accepts/rejects a spec differently from normalize_chunks of the merged spec", desc,
                              signature={**sig, "class": "accept-mismatch"})
            elif err is None and got != want:
                chk.violation("chunks differ from normalize_chunks of the merged spec", desc, signature={**sig, "class": "chunks-mismatch"})
        elif err is None:
            if werr is not None:
                chk.violation("balance=True accepted a spec normalize_chunks rejects", desc, signature={**sig, "class": "accept-mismatch"})
            elif tuple(sum(c) for c in got) != shape or any(len(c) == 0 or min(c) < 0 for c in got):
                chk.violation("balance=True chunks are not a layout of the shape", desc, signature={**sig, "class": "balance-invalid-layout"})
        if err is None:
            # valid layout of x's shape
            if len(got) != len(shape) or any(sum(c) != n or len(c) == 0 or min(c) < 0 for c, n in zip(got, shape)):
                chk.violation("rechunk chunks are not a layout of the shape", desc, signature={**sig, "class": "invalid-layout"})
            else:
                with warnings.catch_warnings():
                    warnings.simplefilter("ignore")
                    try:
                        bad = check_blocks(y, data)
                        if bad is None and not np.array_equal(y.compute(scheduler="sync"), data):
                            bad = "compute() differs from x"
                    except Exception as e:  # noqa: BLE001
                        bad = "computing raised " + type(e).__name__ + ": " + str(e)[:100]
                if bad:
                    chk.violation("rechunked array: " + bad, desc, signature={**sig, "class": "wrong-blocks", "zero_size_chunks": any(0 in c for c in old + got)})
        # ---- Coq model of Rechunk.chunks (known sizes, rank >= 1)
        try:
            uspec = cuspec(spec)
        except Exception:  # noqa: BLE001  (malformed strings etc.: outside the model's domain)
            continue
        if auto_api == "unused":
            ao = "None"
        elif auto_api is None:
            ao = "None"
        else:
            try:
                ao = "(Some " + clist(auto_api, caspec) + ")"
            except Exception:  # noqa: BLE001
                continue
        medians = []
        if balance:
            # the median oracle is taken from the implementation's own pre-balance normalisation
            with warnings.catch_warnings():
                warnings.simplefilter("ignore")
                try:
                    with time_limit(5):
                        pre = R.Rechunk(x.expr, spec, None, bsl, False, None).chunks
                    medians = [int(np.median(c).astype(int)) for c in pre]
                except (Exception, Hang):  # noqa: BLE001
                    medians = []
        cases.append(ctuple(ao, clist(medians), cchunks(old), uspec, copt(bsl), cbool(balance),
                            "(Ok " + cchunks(got) + ")" if err is None else "(Err EValue)"))
        kept.append((shape, old, spec, kw, dtype, got if err is None else err, auto_api, medians))
    mism, _ = coq_eval_cases(
        HEADER, "option (list aspec) * list Z * chunksN * uspec * option Z * bool * res chunksN",
        "Definition chk (c : option (list aspec) * list Z * chunksN * uspec * option Z * bool * res chunksN) : bool :=\n"
        "  let '(ao, med, old, spec, lim, bal, out) := c in\n"
        "  res_chunks_eqb (rechunk_chunks ao med old spec lim bal) out &&\n"
        "  match out with Ok cs => NormChunks.layout_ok cs (map zsum old) | Err _ => true end.", cases, chunk=200)
    for i in mism[:5]:
        shape, old, spec, kw, dtype, out, auto_api, medians = kept[i]
        chk.tie_break("correspondence:Rechunk.chunks", {"shape": shape, "old_chunks": old, "spec": repr(spec), "kwargs": norm_kw(kw), "dtype": dtype,
                                                        "impl": out, "auto_chunks_returned": repr(auto_api), "medians": medians})
    chk.traces_validated += len(cases) - len(mism)


# --------------------------------------------------------------------------------------------
def merged_for_node(spec, operand):
    return independent_chunks(spec, operand.shape, operand.chunks, operand.dtype, None)


def fam_programs(chk, da, tier):
    import dask
    from dask_array import _materialize
    rng = chk.rng
    n = 12000 if tier == "thorough" else 600
    done = 0
    # "rechunk" is listed three times: same op set, more rechunk positions per program
    for prog, sources, want in progs.gen_programs(rng, n * 3, depth_choices=(2, 3, 4, 5, 6), ops=PROG_OPS + ["rechunk", "rechunk"], max_dim=6):
        nodes = progs.all_nodes(prog)
        rnodes = [q for q in nodes if q[0] == "rechunk"]
        if not rnodes:
            continue
        done += 1
        if done > n:
            break
        run_program(chk, da, dask, _materialize, prog, sources, want)
    # masked ufunc calls (where= / out= operands are rechunked along with the data operands when a rechunk is pushed through the
    # elemwise), under the default and the 'refine' unification policy (under 'refine' nobody realigns a stale operand afterwards)
    import random as _random
    rng2 = _random.Random(f"C14-where-out-{chk.seed}")
    done = 0
    for prog, sources, want in progs.gen_programs(rng2, n * 6, depth_choices=(2, 3, 4), ops=["where_out", "where_out", "elem2", "scalar", "T", "slice", "rechunk", "rechunk", "rechunk"], max_dim=6):
        nodes = progs.all_nodes(prog)
        if not any(q[0] == "rechunk" and q[1][0] == "where_out" for q in nodes):
            continue
        done += 1
        if done > n // 2:
            break
        chk.count("prog-family:rechunk-over-masked-ufunc")
        with dask.config.set({"array.unify-chunks-policy": "refine"} if done % 2 else {}):
            run_program(chk, da, dask, _materialize, prog, sources, want)


def prog_signature(prog, q, cls, extra=None):
    below = q[1][0] if isinstance(q[1], tuple) else "?"
    above = sorted({p[0] for p in progs.all_nodes(prog) if any(c is q for c in progs.subprograms(p))})
    sig = {"fn": "rechunk-in-program", "class": cls, "rechunk_input_op": below}
    if extra:
        sig.update(extra)
    return sig, above


def run_program(chk, da, dask, _materialize, prog, sources, want):
    ops = sorted(progs.ops_in(prog))
    for o in ops:
        chk.count("prog-op:" + o)
    chk.case(("prog", progs.show(prog), repr([(s[0].shape, s[1]) for s in sources])), nontrivial=True,
             sample=progs.describe(prog, sources) if len(progs.all_nodes(prog)) <= 5 else None)
    memo = {}
    with warnings.catch_warnings():
        warnings.simplefilter("ignore")
        try:
            arr = progs.build(prog, da, sources, memo=memo)
        except Exception as e:  # noqa: BLE001
            chk.violation("building a program with rechunk raised " + type(e).__name__ + ": " + str(e)[:150],
                          {**progs.describe(prog, sources)}, signature={"fn": "rechunk-in-program", "class": "build-raises", "root_op": prog[0]})
            return
        ok_all = True
        for q in progs.all_nodes(prog):
            if q[0] != "rechunk":
                continue
            out = memo[id(q)][1]
            operand = memo[id(q[1])][1]
            sub_want = progs.eval_np(q, sources)
            pos = {"rechunk_spec": repr(q[2]), "input_op": q[1][0], "input_chunks": operand.chunks, "advertised": out.chunks}
            # (a) advertised chunks == independent normalisation against the operand
            try:
                exp = merged_for_node(q[2], operand)
            except Exception as e:  # noqa: BLE001
                exp = "raises " + type(e).__name__
            if out.chunks != exp:
                sig, _ = prog_signature(prog, q, "advertised-chunks")
                chk.violation("rechunk node advertises chunks different from normalize_chunks of its spec",
                              {**progs.describe(q, sources), **pos, "expected": exp}, signature=sig)
                ok_all = False
                continue
            # (b) the optimised expression keeps the chunks (before _materialize's bridge) ...  A no-op
            # rechunk returns its operand (no Rechunk node exists): nothing to check there.
            problem, cls = None, None
            if out is operand or type(out.expr).__name__ != "Rechunk":
                chk.count("prog-rechunk:no-op")
            else:
                try:
                    low = _materialize._lower(out.expr, True)
                    low_chunks = low.chunks
                    problem = None if low_chunks == out.chunks else f"optimised expression has chunks {low_chunks}"
                    cls = "optimised-chunks-differ"
                    chk.count("prog-rechunk:" + ("tasks" if any(type(nd).__name__ == "TasksRechunk" for nd in low.walk()) else "absorbed"))
                except Exception as e:  # noqa: BLE001
                    problem, cls = "optimising raised " + type(e).__name__ + ": " + str(e)[:120], "optimise-raises"
            # (c) ... and every block of the computed graph has the advertised shape and NumPy's values
            if problem is None:
                try:
                    problem = check_blocks(out, sub_want)
                    cls = "wrong-blocks"
                except Exception as e:  # noqa: BLE001
                    problem, cls = "computing raised " + type(e).__name__ + ": " + str(e)[:120], "compute-raises"
            if problem and cls in ("compute-raises", "wrong-blocks") and not computes_right_without_rechunks(q, sources, da):
                chk.count("prog-rechunk:program-fails-without-any-rechunk(C01)")
                ok_all = False
                problem = None
            if problem:
                # does the un-optimised graph do it right?
                unopt = None
                try:
                    with dask.config.set({"array.optimize-graph": False}):
                        _materialize._LOWER_CACHE.clear()
                        unopt = check_blocks(progs.build(q, da, sources, memo={}), sub_want) is None
                except Exception:  # noqa: BLE001
                    unopt = False
                finally:
                    _materialize._LOWER_CACHE.clear()
                small = shrink_rechunk(q, sources, da)
                sig, _ = prog_signature(prog, small, cls)
                chk.violation("rechunk inside a program: " + problem,
                              {**progs.describe(small, sources), "rechunk_spec": repr(small[2]), "unoptimized_graph_ok": unopt}, signature=sig)
                ok_all = False
        # whole program: optimised == NumPy == unoptimised
        try:
            got = arr.compute(scheduler="sync")
            ok, why = progs.values_equal(got, want)
            with dask.config.set({"array.optimize-graph": False}):
                _materialize._LOWER_CACHE.clear()
                got_u = progs.build(prog, da, sources, memo={}).compute(scheduler="sync")
            _materialize._LOWER_CACHE.clear()
            ok_u, why_u = progs.values_equal(got_u, want)
            err = None
        except Exception as e:  # noqa: BLE001
            _materialize._LOWER_CACHE.clear()
            ok = ok_u = False
            err = type(e).__name__ + ": " + str(e)[:150]
        if err or not ok or not ok_u:
            if ok_all and not computes_right_without_rechunks(prog, sources, da):
                chk.count("prog-rechunk:program-fails-without-any-rechunk(C01)")
            elif ok_all:      # not already attributed to a rechunk node above
                chk.violation("program containing rechunk: " + (err or ("optimised result differs from NumPy" if not ok else "unoptimised result differs from NumPy")),
                              {**progs.describe(prog, sources), "ops": ops},
                              signature={"fn": "rechunk-in-program", "class": "program-raises" if err else "program-wrong-value", "root_op": prog[0],
                                         "error": (err or "").split(":")[0]})
        else:
            chk.traces_validated += 1


def strip_rechunks(prog):
    """the same program with every rechunk node replaced by its operand (same values)"""
    def is_prog(x):
        return isinstance(x, tuple) and x and isinstance(x[0], str) and x[0] in progs.KNOWN_TAGS and x[0] not in ("const", "nparray")

    def rec(p):
        if p[0] == "rechunk":
            return rec(p[1])
        out = [p[0]]
        for x in p[1:]:
            if is_prog(x):
                out.append(rec(x))
            elif isinstance(x, tuple) and x and all(is_prog(y) for y in x):
                out.append(tuple(rec(y) for y in x))
            elif isinstance(x, list) and x and all(is_prog(y) for y in x):
                out.append([rec(y) for y in x])
            else:
                out.append(x)
        return tuple(out)
    return rec(prog)


def computes_right_without_rechunks(p, sources, da):
    """is the program, all rechunks removed, computed correctly?  (False: the failure is not the rechunk's — property C01's business)"""
    try:
        q = strip_rechunks(p)
        with warnings.catch_warnings():
            warnings.simplefilter("ignore")
            got = progs.build(q, da, sources, memo={}).compute(scheduler="sync")
        return progs.values_equal(got, progs.eval_np(q, sources))[0]
    except Exception:  # noqa: BLE001
        return False


def shrink_rechunk(q, sources, da):
    """smallest rechunk-rooted sub-program below q whose optimised blocks are wrong"""
    def fails(p):
        if p[0] != "rechunk":
            return False
        try:
            with warnings.catch_warnings():
                warnings.simplefilter("ignore")
                return check_blocks(progs.build(p, da, sources, memo={}), progs.eval_np(p, sources)) is not None
        except Exception:  # noqa: BLE001
            return True
    cur = q
    changed = True
    while changed:
        changed = False
        for p in progs.all_nodes(cur)[1:]:
            if fails(p):
                cur, changed = p, True
                break
    return cur



# --------------------------------------------------------------------------------------------
PUSHDOWNS = ["_pushdown_through_slice", "_pushdown_through_concatenate", "_pushdown_into_io", "_pushdown_through_elemwise",
             "_pushdown_through_transpose", "_pushdown_through_expand_dims"]


class PushdownCounter:
    """counts which Rechunk pushdown rewrites fired (coverage only; behaviour is unchanged)"""

    def __init__(self, R, chk):
        self.R, self.chk, self.saved = R, chk, {}

    def __enter__(self):
        chk = self.chk
        for name in PUSHDOWNS:
            orig = getattr(self.R.Rechunk, name)
            self.saved[name] = orig

            def w(this, *a, _orig=orig, _name=name, **k):
                out = _orig(this, *a, **k)
                if out is not None:
                    chk.count("pushdown-fired:" + _name)
                return out
            setattr(self.R.Rechunk, name, w)
        return self

    def __exit__(self, *a):
        for name, orig in self.saved.items():
            setattr(self.R.Rechunk, name, orig)


def rand_data(rng, shape, k):
    return (np.arange(int(np.prod(shape)), dtype="int64").reshape(shape) * (3 + 2 * k) + k) % 29 - 7


def rand_target(rng, n):
    r = rng.random()
    if r < 0.45:
        return rand_chunks(rng, n)
    if r < 0.7:
        return rng.randint(1, max(1, n))
    if r < 0.85:
        return -1
    return None


def fam_pushdown(chk, da, R, tier):
    """templates aimed at each pushdown: rechunk over concatenate (target boundaries vs part seams), over a
    slice of a shared node (slice/rechunk composition), over elemwise with broadcasting, transpose,
    expand_dims, rechunk of rechunk, and rechunk pushed into the source."""
    import dask
    from dask_array import _materialize
    rng = chk.rng
    n_cases = 6000 if tier == "thorough" else 500
    with PushdownCounter(R, chk):
        corpus = list(corpus_templates(da))
        for it in range(-len(corpus), n_cases):
            if it < 0:
                t, shape = corpus[it][0], corpus[it][1]
            else:
                t = rng.choice(["concat", "concat", "slice-shared", "slice-shared", "elemwise", "transpose", "expand", "rere", "io", "slice-plain"])
                rank = rng.choice([1, 2]) if t not in ("transpose",) else rng.choice([2, 3])
                shape = tuple(rng.choice([1, 2, 3, 5, 7, 9, 12]) for _ in range(rank))
            try:
                with warnings.catch_warnings():
                    warnings.simplefilter("ignore")
                    built = corpus[it][2]() if it < 0 else build_template(rng, da, t, shape)
            except Exception as e:  # noqa: BLE001
                chk.violation("building a rechunk template raised " + type(e).__name__ + ": " + str(e)[:150], {"fn": "rechunk-template", "template": t, "shape": shape},
                              signature={"fn": "rechunk-template", "class": "build-raises", "template": t})
                continue
            if built is None:
                continue
            out, want, operand, spec, desc, rebuild = built
            chk.count("template:" + t)
            chk.case(("tmpl", t, json.dumps(desc, default=str)), nontrivial=out is not operand, sample={"fn": "rechunk-template", "template": t, **desc})
            balanced = bool(desc.get("balance") or desc.get("inner_balance"))
            sig = {"fn": "rechunk-template", "template": t, "balance": balanced}
            full = {"fn": "rechunk-template", "template": t, **desc}
            with warnings.catch_warnings():
                warnings.simplefilter("ignore")
                try:
                    exp = independent_chunks(spec, operand.shape, operand.chunks, operand.dtype, None)
                except Exception as e:  # noqa: BLE001
                    exp = "raises " + type(e).__name__
                if not desc.get("balance"):      # the independent expectation has no balance step (fam_api checks that against the model)
                    node = rebuild["rechunk_node"]
                    if node.chunks != exp:
                        chk.violation("rechunk node advertises chunks different from normalize_chunks of its spec", {**full, "advertised": node.chunks, "expected": exp},
                                      signature={**sig, "class": "advertised-chunks"})
                        continue
                problem, cls = None, None
                try:
                    node = rebuild["rechunk_node"]
                    if type(node.expr).__name__ == "Rechunk":
                        low = _materialize._lower(node.expr, True)
                        if low.chunks != node.chunks:
                            problem, cls = f"optimised rechunk expression has chunks {low.chunks}, advertised {node.chunks}", "optimised-chunks-differ"
                            sig["optimised_root"] = type(low).__name__
                    if problem is None:
                        problem, cls = check_blocks(node, rebuild["node_want"]), "wrong-blocks"
                    if problem is None:
                        problem, cls = check_blocks(out, want), "wrong-blocks"
                except Exception as e:  # noqa: BLE001
                    problem, cls = "optimising/computing raised " + type(e).__name__ + ": " + str(e)[:150], "compute-raises"
                unopt = None
                try:
                    with dask.config.set({"array.optimize-graph": False}):
                        _materialize._LOWER_CACHE.clear()
                        out_u = rebuild["again"]()
                        unopt = check_blocks(out_u, want)
                except Exception as e:  # noqa: BLE001
                    unopt = "unoptimised graph raised " + type(e).__name__ + ": " + str(e)[:100]
                finally:
                    _materialize._LOWER_CACHE.clear()
            if problem:
                chk.violation("rechunk pushdown template: " + problem, {**full, "unoptimized_graph_problem": unopt}, signature={**sig, "class": cls})
            elif unopt:
                chk.violation("rechunk template, unoptimised graph: " + unopt, full, signature={**sig, "class": "unoptimised-wrong"})
            else:
                chk.traces_validated += 1


def corpus_templates(da):
    """finding F25 first: balance=True is dropped when the rechunk is pushed through elemwise / transpose"""
    data = np.arange(9, dtype="int64")
    old = ((2, 4, 2, 1),)

    def elem():
        def again():
            e = da.from_array(data, chunks=old) + 1
            return e, e.rechunk(4, balance=True)
        operand, out = again()
        return out, data + 1, operand, 4, {"shape": (9,), "chunks": old, "op": "add 1", "spec": "4", "balance": True}, \
            {"rechunk_node": out, "node_want": data + 1, "again": lambda: again()[1]}
    yield "elemwise", (9,), elem
    data2 = np.arange(18, dtype="int64").reshape(2, 9)
    old2 = ((1, 1), (2, 4, 2, 1))

    def tr():
        def again():
            e = da.from_array(data2, chunks=old2).T
            return e, e.rechunk((4, -1), balance=True)
        operand, out = again()
        return out, data2.T, operand, (4, -1), {"shape": (2, 9), "chunks": old2, "axes": (1, 0), "spec": "(4, -1)", "balance": True}, \
            {"rechunk_node": out, "node_want": data2.T, "again": lambda: again()[1]}
    yield "transpose", (2, 9), tr


def build_template(rng, da, t, shape):
    """-> (out, want, operand, spec, description, {"rechunk_node", "node_want", "again"})"""
    rank = len(shape)
    bal = t != "rere" and rng.random() < 0.15      # balance=True on the rechunk under test

    def chunks_for(sh):
        return tuple(rand_chunks(rng, n) for n in sh)

    if t == "concat":
        axis = rng.randrange(rank)
        k = rng.choice([2, 2, 3])
        parts = []
        for j in range(k):
            sh = list(shape)
            sh[axis] = rng.choice([0, 1, 2, 3, 5, 8]) if rng.random() < 0.9 else 0
            sh = tuple(sh)
            parts.append((rand_data(rng, sh, j), chunks_for(sh)))
        total = sum(p[0].shape[axis] for p in parts)
        spec = tuple(rand_target(rng, total if a == axis else shape[a]) for a in range(rank))
        if rng.random() < 0.3:
            spec = {axis: spec[axis] if spec[axis] is not None else -1}
        desc = {"parts": [(p[0].shape, p[1]) for p in parts], "axis": axis, "spec": repr(spec), "balance": bal}

        def again():
            cat = da.concatenate([da.from_array(d, chunks=c) for d, c in parts], axis=axis)
            return cat, cat.rechunk(spec, balance=bal)
        operand, out = again()
        want = np.concatenate([p[0] for p in parts], axis=axis)
        return out, want, operand, spec, desc, {"rechunk_node": out, "node_want": want, "again": lambda: again()[1]}
    data = rand_data(rng, shape, 1)
    old = chunks_for(shape)
    if t in ("slice-shared", "slice-plain"):
        shared = t == "slice-shared"
        idx = []
        for n in shape:
            a = rng.randint(0, n - 1)
            b = rng.randint(a + 1, n)
            idx.append(slice(a, b) if rng.random() < 0.85 else slice(None))
        if rank == 2 and rng.random() < 0.15:
            ax = rng.randrange(2)
            idx[ax] = rng.randint(0, shape[ax] - 1)       # integer index: the dropped axis rides along
        idx = tuple(idx)
        # a second consumer of the slice's input keeps the slice in place, so the rechunk composes with it at lowering
        first_slice = next(i for i, v in enumerate(idx) if isinstance(v, slice))
        idx2 = tuple(slice(None) if i == first_slice else v for i, v in enumerate(idx))
        npbase = data + 1 if shared else data
        node_want = npbase[idx]
        spec = tuple(rand_target(rng, n) for n in node_want.shape)
        desc = {"shape": shape, "chunks": old, "index": repr(idx), "spec": repr(spec), "shared_input": shared, "balance": bal}

        def again():
            x = da.from_array(data, chunks=old)
            base = x + 1 if shared else x
            sl = base[idx]
            node = sl.rechunk(spec, balance=bal)
            out = da.concatenate([node, base[idx2]], axis=0) if shared else node
            return sl, node, out
        sl, node, out = again()
        want = np.concatenate([node_want, npbase[idx2]], axis=0) if shared else node_want
        return out, want, sl, spec, desc, {"rechunk_node": node, "node_want": node_want, "again": lambda: again()[2]}
    if t == "elemwise":
        bshape = list(shape)
        r = rng.random()
        if r < 0.3 and rank == 2:
            bshape = bshape[1:]
        elif r < 0.6:
            bshape[rng.randrange(len(bshape))] = 1
        bshape = tuple(bshape)
        data2 = rand_data(rng, bshape, 2)
        old2 = chunks_for(bshape)
        spec = tuple(rand_target(rng, n) for n in shape)
        if rng.random() < 0.3:
            a = rng.randrange(rank)
            spec = {a: spec[a] if spec[a] is not None else 2}
        f = rng.choice(["add", "maximum", "multiply"])
        desc = {"shape": shape, "chunks": old, "other_shape": bshape, "other_chunks": old2, "op": f, "spec": repr(spec), "balance": bal}

        def again():
            e = getattr(da, f)(da.from_array(data, chunks=old), da.from_array(data2, chunks=old2))
            return e, e.rechunk(spec, balance=bal)
        operand, out = again()
        want = getattr(np, f)(data, data2)
        return out, want, operand, spec, desc, {"rechunk_node": out, "node_want": want, "again": lambda: again()[1]}
    if t == "transpose":
        axes = list(range(rank))
        rng.shuffle(axes)
        axes = tuple(axes)
        tshape = tuple(shape[a] for a in axes)
        spec = tuple(rand_target(rng, n) for n in tshape)
        if rng.random() < 0.4:
            ks = rng.sample(range(rank), rng.randint(1, rank))
            spec = {k: (spec[k] if spec[k] is not None else -1) for k in ks}
        desc = {"shape": shape, "chunks": old, "axes": axes, "spec": repr(spec), "balance": bal}

        def again():
            e = da.from_array(data, chunks=old).transpose(axes)
            return e, e.rechunk(spec, balance=bal)
        operand, out = again()
        want = data.transpose(axes)
        return out, want, operand, spec, desc, {"rechunk_node": out, "node_want": want, "again": lambda: again()[1]}
    if t == "expand":
        ax = rng.randint(0, rank)
        eshape = np.expand_dims(data, ax).shape
        spec = tuple(rand_target(rng, n) for n in eshape)
        desc = {"shape": shape, "chunks": old, "expand_axis": ax, "spec": repr(spec), "balance": bal}

        def again():
            e = da.expand_dims(da.from_array(data, chunks=old) * 2, ax)
            return e, e.rechunk(spec, balance=bal)
        operand, out = again()
        want = np.expand_dims(data * 2, ax)
        return out, want, operand, spec, desc, {"rechunk_node": out, "node_want": want, "again": lambda: again()[1]}
    if t == "rere":
        spec1 = tuple(rand_target(rng, n) for n in shape)
        spec = tuple(rand_target(rng, n) for n in shape)
        b1, b2 = rng.random() < 0.2, rng.random() < 0.2
        desc = {"shape": shape, "chunks": old, "inner_spec": repr(spec1), "inner_balance": b1, "spec": repr(spec), "balance": b2}

        def again():
            e = (da.from_array(data, chunks=old) + 1).rechunk(spec1, balance=b1)
            return e, e.rechunk(spec, balance=b2)
        operand, out = again()
        return out, data + 1, operand, spec, desc, {"rechunk_node": out, "node_want": data + 1, "again": lambda: again()[1]}
    if t == "io":
        spec = tuple(rand_target(rng, n) for n in shape)
        desc = {"shape": shape, "chunks": old, "spec": repr(spec), "balance": bal}

        def again():
            e = da.from_array(data, chunks=old)
            return e, e.rechunk(spec, balance=bal)
        operand, out = again()
        return out, data, operand, spec, desc, {"rechunk_node": out, "node_want": data, "again": lambda: again()[1]}
    return None


# --------------------------------------------------------------------------------------------
def same_chunks_nan(a, b):
    return len(a) == len(b) and all(len(x) == len(y) and all((p == q) or (isinstance(p, float) and isinstance(q, float) and math.isnan(p) and math.isnan(q))
                                                            for p, q in zip(x, y)) for x, y in zip(a, b))


def fam_unknown(chk, da, tier):
    rng = chk.rng
    for _ in range(400 if tier == "thorough" else 60):
        rank = rng.choice([1, 2, 2, 3])
        shape = tuple(rng.choice([2, 3, 5, 8]) for _ in range(rank))
        old = tuple(rand_chunks(rng, n) for n in shape)
        data = (np.arange(int(np.prod(shape)), dtype="int64").reshape(shape) * 7 + 3) % 23 - 5
        x = da.from_array(data, chunks=old)
        t = rng.randint(-5, 10)
        if rank == 1:
            y, ynp = x[x > t], data[data > t]
        else:
            col = (slice(None),) + (0,) * (rank - 1)
            y, ynp = x[x[col] > t], data[data[col] > t]
        if not any(isinstance(c, float) and math.isnan(c) for c in y.chunks[0]):
            continue
        # ---- along the unknown axis: anything but "unchanged" must raise
        for spec in [2, -1, {0: 2}, {0: -1}, (3,) + (None,) * (rank - 1), "auto", {0: "auto"}]:
            chk.count("unknown:changing-nan-axis")
            chk.case(("unk-raise", shape, old, t, repr(spec)), nontrivial=True)
            try:
                z = y.rechunk(spec)
                z.chunks
                raised = False
            except (ValueError, NotImplementedError):
                raised = True
            except Exception as e:  # noqa: BLE001
                raised = type(e).__name__
            if raised is not True:
                chk.violation("rechunk along an axis of unknown size must raise ValueError" + ("" if raised is False else f" (raised {raised})"),
                              {"fn": "rechunk", "shape": shape, "old_chunks": old, "mask_threshold": t, "spec": repr(spec)},
                              signature={"fn": "rechunk", "class": "unknown-axis-accepted"})
            else:
                chk.traces_validated += 1
        # ---- unchanged nan axis, other axes rechunked
        specs = [{}, (None,) * rank, y.chunks]
        if rank > 1:
            a = rng.randrange(1, rank)
            c = rng.choice([1, 2, -1, rand_chunks(rng, shape[a])])
            specs += [{a: c}, tuple(c if i == a else None for i in range(rank)), {a - rank: c},
                      (y.chunks[0],) + tuple(rng.choice([1, 2, -1]) for _ in range(rank - 1))]
        for spec in specs:
            chk.count("unknown:other-axes")
            chk.case(("unk-ok", shape, old, t, repr(spec)), nontrivial=True,
                     sample={"fn": "rechunk", "shape": shape, "old_chunks": old, "mask_threshold": t, "spec": repr(spec)})
            desc = {"fn": "rechunk", "shape": shape, "old_chunks": old, "mask_threshold": t, "spec": repr(spec)}
            try:
                with warnings.catch_warnings():
                    warnings.simplefilter("ignore")
                    z = y.rechunk(spec)
                    zc = z.chunks
                    val = z.compute(scheduler="sync")
            except Exception as e:  # noqa: BLE001
                chk.violation("rechunk of the known axes of an array with an unknown axis raised " + type(e).__name__ + ": " + str(e)[:120], desc,
                              signature={"fn": "rechunk", "class": "unknown-other-axes-raises"})
                continue
            # expected chunks: axis 0 untouched, others normalised
            from dask_array._core_utils import normalize_chunks
            exp = [y.chunks[0]]
            for ax in range(1, rank):
                if isinstance(spec, dict):
                    v = spec.get(ax, spec.get(ax - rank))
                else:
                    v = spec[ax]
                exp.append(y.chunks[ax] if v is None else normalize_chunks((v,), (shape[ax],))[0])
            if not same_chunks_nan(zc, tuple(exp)):
                chk.violation("rechunk with an unknown axis: chunks differ from the expected ones", {**desc, "impl": repr(zc), "expected": repr(tuple(exp))},
                              signature={"fn": "rechunk", "class": "unknown-chunks-mismatch"})
            elif not np.array_equal(val, ynp):
                chk.violation("rechunk with an unknown axis changed the values", desc, signature={"fn": "rechunk", "class": "unknown-wrong-value"})
            else:
                chk.traces_validated += 1


# --------------------------------------------------------------------------------------------
def replay(path):
    import dask_array as da
    r = json.load(open(path))
    print(json.dumps(r, indent=1))
    d = r.get("data", {})
    if d.get("fn") == "rechunk" and "old_chunks" in d and "shape" in d and "mask_threshold" not in d:
        shape = tuple(d["shape"])
        old = tuple(tuple(c) for c in d["old_chunks"])
        spec = eval(d["spec"], {"nan": float("nan")})  # noqa: S307 (our own repr)
        data = ((np.arange(int(np.prod(shape)), dtype="int64").reshape(shape) * 7 + 3) % 23 - 5).astype(d.get("dtype", "int64"))
        x = da.from_array(data, chunks=old)
        try:
            y = x.rechunk(spec, **d.get("kwargs", {}))
            print("impl now: chunks", y.chunks, "values equal:", bool(np.array_equal(y.compute(), data)))
        except Exception as e:  # noqa: BLE001
            print("impl now raises:", repr(e))
        try:
            print("independent expectation:", independent_chunks(spec, shape, old, d.get("dtype", "int64"), d.get("kwargs", {}).get("block_size_limit")))
        except Exception as e:  # noqa: BLE001
            print("independent expectation raises:", repr(e))
    elif d.get("fn") == "_compute_rechunk":
        import dask_array._rechunk as R
        old = tuple(tuple(c) for c in d["old"])
        new = tuple(tuple(c) for c in d["new"])
        try:
            print("impl now:", R._compute_rechunk("x", old, new, 0, "rechunk-merge-T")[2])
        except Exception as e:  # noqa: BLE001
            print("impl now raises:", repr(e))
    else:
        print("(programs are printed in S-expression form; re-run ./check C14 with the recorded seed to reproduce)")


def run(chk: Check):
    import dask_array as da
    import dask_array._rechunk as R
    chk.rule = ("graph: exhaustive small (all pairs of compositions of n<=5, all layouts with zero-size chunks of n<=3) + random 1-D..3-D "
                "(old,new) layouts -> _compute_rechunk / TasksRechunk._layer read back (split keys, getitem slices, concatenate3 nesting, aliases) "
                "== Gallina model compute_rechunk_1d / compute_rechunk_nd, executed on NumPy blocks == segments of the array; helpers: "
                "_validate_rechunk (known+nan), _balance_chunksizes (np.median as oracle), _get_chunks == model; api: generated specs (int, tuple, "
                "list, dict incl. negative keys, -1, None, 'auto', byte strings, malformed) x block_size_limit/balance/threshold/method on rank 1-3 "
                "arrays incl. 0/1-length axes and zero-size chunks: x.rechunk(spec).chunks == Rechunk(x,spec).chunks == independent merge + "
                "normalize_chunks == Gallina rechunk_chunks (auto_chunks result and medians as oracles), values and every block shape of the "
                "computed graph; programs: rechunk at random positions among elemwise/transpose/slice/concatenate/stack/expand_dims/squeeze, "
                "advertised chunks == normalisation == optimised expression == computed block shapes, values == NumPy, optimised == unoptimised; "
                "unknown: boolean-masked arrays, rechunk along the nan axis must raise, other axes must work. non-trivial = layouts differ / "
                "accepted spec that changes the chunks / plan with >1 step")
    chk.assumptions = ["np.median(chunks).astype(int) (balance) and the tuple returned by auto_chunks(previous_chunks=...) are oracle arguments of the model, "
                       "recorded from the implementation run",
                       "NumPy is the value oracle; dask.local.get_sync executes graphs"]
    chk.trusted_base = ["parse_layer (harness/c14.py): reads Alias/Task/List/TaskRef objects of dask._task_spec back into data",
                        "AutoRecorder: shadows dask_array._core_utils.auto_chunks to record its return value"]
    chk.run_proofs()
    fam_graph(chk, R, chk.tier)
    fam_layer(chk, da, R, chk.tier)
    fam_helpers(chk, R, chk.tier)
    fam_api(chk, da, R, chk.tier)
    fam_unknown(chk, da, chk.tier)
    fam_pushdown(chk, da, R, chk.tier)
    fam_programs(chk, da, chk.tier)
